#!/usr/bin/env python3
"""prints the DESIGN 8.5 table from seeded/*/meta.json (+ first line of each notes.md)"""
import glob, json, os, re
here = os.path.dirname(os.path.dirname(os.path.abspath(__file__)))
rows = []
for d in sorted(glob.glob(os.path.join(here, "seeded", "*"))):
    mp = os.path.join(d, "meta.json")
    if not os.path.exists(mp):
        continue
    m = json.load(open(mp))
    files = re.findall(r"^\+\+\+ b/(\S+)", open(os.path.join(d, "patch.diff")).read(), re.M)
    caught = ", ".join(m.get("caught_by", [])) or "-"
    rows.append(f"| {m['name']} | {m['property']} | {', '.join(f.replace('pyvolutionary/', '') for f in files)} | {m.get('summary', '')} | "
                f"{'yes' if m.get('confirmed') else 'NO'} | {caught} |")
print("| seeded change | property | file(s) | what it is / what it needs to manifest | confirmed | caught by |\n|---|---|---|---|---|---|")
print("\n".join(rows))
