#!/usr/bin/env python3
"""Builds selftest/harmless/<name>.diff: semantics-preserving refactors under which every property still holds.
The false-alarm drill (selftest/drill_harmless.sh) applies each and expects every check to exit 0."""
import os, subprocess, tempfile, shutil
M = [
 ("h01_mean_instead_of_average", "helpers.py", "    return np.average([agent.fitness for agent in population])", "    fits = [agent.fitness for agent in population]\n    return sum(fits) / len(fits)"),
 ("h02_sorted_builtin", "helpers.py", "    pop_new = population.copy()\n    pop_new.sort(key=lambda agent: agent.cost, reverse=(task_type == TaskType.MAX))\n    return pop_new", "    return sorted(population, key=lambda agent: agent.cost, reverse=(task_type == TaskType.MAX))"),
 ("h03_results_in_submission_order", "helpers.py", "    res = []\n    for i in parallel.as_completed(executors):\n        res.append(i.result())\n    return res", "    parallel.wait(executors)\n    return [i.result() for i in executors]"),
 ("h04_greedy_without_copy", "abstract.py", "        agent_copy = agent.model_copy()\n        return new_agent if new_agent.cost < agent_copy.cost else agent_copy", "        return new_agent if new_agent.cost < agent.cost else agent"),
 ("h05_population_always_copies", "models.py", "            if tt == TaskType.MIN:\n                return a\n            # return the agent with the position multiplied by -1\n            return a.model_copy(update={\"cost\": -a.cost})\n\n        task_type = kwargs.get(\"task_type\", TaskType.MIN)\n        agents =", "            if tt == TaskType.MIN:\n                return a.model_copy()\n            # return the agent with the position multiplied by -1\n            return a.model_copy(update={\"cost\": -a.cost})\n\n        task_type = kwargs.get(\"task_type\", TaskType.MIN)\n        agents ="),
 ("h06_fitness_formula_rewritten", "helpers.py", "    return (1 / (value + 1)) if value >= 0 else (1 + abs(value))", "    if value >= 0:\n        return 1.0 / (1.0 + value)\n    return 1.0 - value"),
 ("h07_clip_with_min_max", "models.py", "        return float(np.clip(float(value), self.lower_bound, self.upper_bound))", "        value = float(value)\n        if value != value:\n            return value\n        return float(min(max(value, self.lower_bound), self.upper_bound))"),
 ("h08_randint_for_choice", "models.py", "        return np.random.choice(range(0, len(self.choices)))", "        return int(np.random.randint(0, len(self.choices)))"),
 ("h09_bounds_cached_privately", "models.py", None, None),
 ("h10_index_sort_stable_kind", "helpers.py", "    result = np.argsort([agent.cost for agent in population], axis=0)", "    result = np.argsort(np.array([agent.cost for agent in population], dtype=float), kind=\"stable\")"),
 ("h11_special_agents_single_sort", "helpers.py", "    best = []\n    if n_best is not None:\n        best = best_agents(population, n_best, task_type)\n\n    worst = []\n    if n_worst is not None:\n        worst = worst_agents(population, n_worst, task_type)\n\n    return best, worst", "    ordered = sort_by_cost(population, task_type=task_type)\n    best = ordered[:n_best] if n_best is not None else []\n    worst = ordered[len(ordered) - n_worst:] if n_worst is not None else []\n    return best, worst"),
 ("h12_result_rates_copied", "abstract.py", "            evolution=evolution, rates=self._errors, best_solution=self._best_agent, task_type=task.minmax", "            evolution=evolution, rates=list(self._errors), best_solution=self._best_agent, task_type=task.minmax"),
]
def main():
    here = os.path.dirname(os.path.abspath(__file__))
    outdir = os.path.join(here, "harmless")
    tmp = tempfile.mkdtemp(prefix="pvharm.")
    subprocess.check_call(f"git -C /repo archive HEAD | tar -x -C {tmp}", shell=True)
    subprocess.check_call(["git", "init", "-q"], cwd=tmp)
    subprocess.check_call("git add -A && git -c user.email=a@b -c user.name=a commit -qm base", shell=True, cwd=tmp)
    made = []
    for name, f, old, new in M:
        if old is None:
            continue
        path = os.path.join(tmp, "pyvolutionary", f)
        s = open(path).read()
        if s.count(old) != 1:
            print("SKIP (pattern count %d)" % s.count(old), name); continue
        open(path, "w").write(s.replace(old, new))
        d = subprocess.run(["git", "diff"], cwd=tmp, capture_output=True, text=True).stdout
        open(os.path.join(outdir, f"{name}.diff"), "w").write(d)
        subprocess.check_call(["git", "checkout", "-q", "--", "."], cwd=tmp)
        made.append(name)
    open(os.path.join(outdir, "INDEX.txt"), "w").write("\n".join(made) + "\n")
    shutil.rmtree(tmp)
    print(len(made), "patches")
main()
