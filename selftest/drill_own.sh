#!/bin/bash
# drill every own patch against the properties it is expected to break (quick tier by default)
HERE="$(cd "$(dirname "$0")/.." && pwd)"; TIER="${1:-quick}"
while read name props; do
  "$HERE/selftest/drill.sh" "$HERE/selftest/patches/$name.diff" "$props" "$TIER" 2>&1 | grep "^DRILL" | sed "s|$HERE/selftest/patches/||"
done < "$HERE/selftest/patches/INDEX.txt"
