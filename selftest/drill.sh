#!/bin/bash
# Mutation drill helper: run checks against a scratch copy of /repo carrying a patch (or with a commit reverted).
# usage: selftest/drill.sh <patch.diff | revert:<commit>> <ID>[,<ID>...] [tier]
# The scratch copy lives outside /repo and /verif and is removed afterwards; evidence/replays go to a temp dir.
PATCH="$1"; IDS="$2"; TIER="${3:-quick}"
case "$PATCH" in revert:*|/*) ;; *) PATCH="$PWD/$PATCH";; esac
HERE="$(cd "$(dirname "$0")/.." && pwd)"
MUT=$(mktemp -d /tmp/pvmut.XXXXXX)
trap 'rm -rf "$MUT"' EXIT
mkdir -p "$MUT/repo" "$MUT/ev" "$MUT/rp"
git -C /repo archive HEAD | tar -x -C "$MUT/repo"
# carry uncommitted working-tree changes of /repo too
git -C /repo diff HEAD | (cd "$MUT/repo" && patch -p1 -s >/dev/null 2>&1 || true)
cd "$MUT/repo" || exit 2
if [[ "$PATCH" == revert:* ]]; then
  git -C /repo show "${PATCH#revert:}" | patch -p1 -R -s || { echo "DRILL: revert failed"; exit 3; }
else
  patch -p1 -s < "$PATCH" || { echo "DRILL: patch failed"; exit 3; }
fi
rc_all=0
for ID in ${IDS//,/ }; do
  PVMON_REPO="$MUT/repo" PVMON_EVIDENCE_DIR="$MUT/ev" PVMON_REPLAY_DIR="$MUT/rp" "$HERE/bin/check" "$ID" --tier "$TIER" > "$MUT/out.$ID" 2>&1
  rc=$?
  echo "DRILL $PATCH $ID rc=$rc $(grep -c '^VIOLATION' "$MUT/out.$ID") violation line(s)"
  grep -E "^\[$ID\]   \{|^KNOWN|^INCONCLUSIVE" "$MUT/out.$ID" | head -4 | cut -c1-330
  [ $rc -ne 0 ] && rc_all=$rc
done
exit $rc_all
