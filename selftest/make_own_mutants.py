#!/usr/bin/env python3
"""Builds selftest/patches/<name>.diff: the maintainers-slip style breaks planned in DESIGN section 4 (own drill; the
sub-agent changes live under /verif/seeded).  Each entry: (name, properties expected to fire, file, old, new)."""
import os, subprocess, sys, tempfile, shutil
M = [
 ("c01_onesided_clip", "C01,C05,C13", "models.py", "return float(np.clip(float(value), self.lower_bound, self.upper_bound))", "return float(np.minimum(float(value), self.upper_bound))"),
 ("c01_skip_correct_when_given", "C01,C05", "models.py", "return self.correct_solution(solution if solution is not None else self.empty_solution())", "return solution if solution is not None else self.correct_solution(self.empty_solution())"),
 ("c02_sign_slip_fcn", "C02,C12", "abstract.py", "return [-1 * c for c in cost] if isinstance(cost, list) else -1 * cost", "return [-1 * c for c in cost] if isinstance(cost, list) else cost"),
 ("c02_population_keeps_internal_sign", "C02,C03", "models.py", "            return a.model_copy(update={\"cost\": -a.cost})\n\n        task_type = kwargs.get(\"task_type\", TaskType.MIN)\n        agents =", "            return a\n\n        task_type = kwargs.get(\"task_type\", TaskType.MIN)\n        agents ="),
 ("c03_special_agents_swapped", "C03", "abstract.py", "            (self._best_agent, ), (self._worst_agent, ) = special_agents(self._population, n_best=1, n_worst=1)\n\n            # stop when", "            (self._worst_agent, ), (self._best_agent, ) = special_agents(self._population, n_best=1, n_worst=1)\n\n            # stop when"),
 ("c03_best_not_refreshed_last_cycle", "C03", "abstract.py", "            (self._best_agent, ), (self._worst_agent, ) = special_agents(self._population, n_best=1, n_worst=1)\n\n            # stop when the error is below the error criteria or when the maximum number of cycles is reached\n            error, fitness, has_to_stop = self.__error_check__()\n", "            # stop when the error is below the error criteria or when the maximum number of cycles is reached\n            error, fitness, has_to_stop = self.__error_check__()\n            if not has_to_stop:\n                (self._best_agent, ), (self._worst_agent, ) = special_agents(self._population, n_best=1, n_worst=1)\n"),
 ("c04_cycle_gt", "C04", "abstract.py", "has_to_stop = cycle >= max_cycles", "has_to_stop = cycle > max_cycles"),
 ("c04_window_ignores_patience", "C04", "abstract.py", "for diff in self._error_diffs[-patience:]])", "for diff in self._error_diffs[-1:]])"),
 ("c04_lt_for_le", "C04", "abstract.py", "has_to_stop |= current_error <= fitness_error", "has_to_stop |= current_error < fitness_error"),
 ("c05_direct_objective_call", "C05", "grey_wolf/grey_wolf_optimization.py", "            return self._greedy_select_agent(wolf, GreyWolf(**self._init_agent((x1 + x2 + x3) / 3).model_dump()))", "            cand = (x1 + x2 + x3) / 3\n            if self._task.objective_function(cand.tolist()) is None:\n                return wolf\n            return self._greedy_select_agent(wolf, GreyWolf(**self._init_agent(cand).model_dump()))"),
 ("c06_inplace_float_on_int_array", "C06", "grey_wolf/grey_wolf_optimization.py", "            pos = np.array(wolf.position)\n            a1, a2, a3", "            pos = np.array(wolf.position)\n            pos *= 1.0\n            a1, a2, a3"),
 ("c15_inplace_position", "C15,C02", "grey_wolf/grey_wolf_optimization.py", "        self._population = [evolve(wolf) for wolf in self._population]\n\n        # best 3", "        self._population = [evolve(wolf) for wolf in self._population]\n        if self._current_cycle % 3 == 0:\n            self._population[-1].position[0] = self._population[0].position[0]\n\n        # best 3"),
 ("c11_shared_scratch_race", "C11", "abstract.py", "        position = self._task.initial_solution(position)\n        cost = self._fcn(position)", "        position = self._task.initial_solution(position)\n        self._scratch = position\n        cost = self._fcn(self._scratch)"),
 ("c07_stdlib_random", "C07", "whales/whales_optimization.py", None, None),
 ("c06_max_cycles_minus_one", "C06", "seagull/seagull_optimization.py", None, None),
 ("c11_shared_scratch_race", "C11", "abstract.py", "        position = self._task.initial_solution(position)\n        cost = self._fcn(position)", "        position = self._task.initial_solution(position)\n        self._scratch = position\n        cost = self._fcn(self._scratch)"),
 ("c07_stdlib_random", "C07", "whales/whales_optimization.py", None, None),
 ("c09_config_inplace", "C09", "harmony_search/harmony_search_optimization.py", None, None),
 ("c10_trim_minus_one", "C10", "helpers.py", "return sort_by_cost(population)[:population_size]", "return sort_by_cost(population)[:population_size - 1] if population_size > 3 else sort_by_cost(population)[:population_size]"),
 ("c10_residual_duplicated", "C10", "abstract.py", "        residual = self._population[n_groups * n_agents:]", "        residual = self._population[n_groups * n_agents - 1:] if len(self._population) > n_groups * n_agents else []"),
 ("c11_drop_duplicate_results", "C11", "helpers.py", "        res.append(i.result())", "        r = i.result()\n        if r not in res:\n            res.append(r)"),
 ("c11_drop_last_result", "C11", "helpers.py", "    return res\n\n\ndef find_centers", "    return res[:-1] if len(res) > 16 else res\n\n\ndef find_centers"),
 ("c12_sort_reverse_for_max_inside", "C12,C16", "helpers.py", "    return sort_by_cost(population)[:population_size]", "    return sort_by_cost(population, TaskType.MAX if len(population) % 7 == 0 else TaskType.MIN)[:population_size]"),
 ("c13_round_for_int", "C13,C14", "models.py", "        return int(np.clip(value, lb, ub))", "        return int(round(float(np.clip(value, lb, ub))))"),
 ("c13_len_for_len_minus_one", "C13,C01,C05", "models.py", "        return 0, len(self.choices) - 1", "        return 0, len(self.choices)"),
 ("c16_greedy_inverted", "C16,C17", "abstract.py", "return new_agent if new_agent.cost < agent_copy.cost else agent_copy", "return new_agent if new_agent.cost > agent_copy.cost else agent_copy"),
 ("c16_worst_agents_wrong_end", "C16", "helpers.py", "    return sort_by_cost(population, task_type=task_type)[len(population)-n_worst:]", "    return sort_by_cost(population, task_type=task_type)[:n_worst]"),
 ("c19_skip_last_grid_point", "C19", "hypertuner.py", "        for id_params, params in enumerate(list_params_grid):", "        for id_params, params in enumerate(list_params_grid[:-1] if len(list_params_grid) > 5 else list_params_grid):"),
 ("c19_previous_params_reused", "C19", "hypertuner.py", "            self._algorithm.set_config_parameters(params)\n            best_fit_results.append", "            if id_params % 4 != 3:\n                self._algorithm.set_config_parameters(params)\n            best_fit_results.append"),
 ("c20_wrong_mode_column", "C20", "multitask.py", "            mode = self._modes[id_optimizer][id_prob]", "            mode = self._modes[id_optimizer][0]"),
 ("c20_skip_pair", "C20", "multitask.py", "            for id_task, task in enumerate(self._tasks):", "            for id_task, task in enumerate(self._tasks[:2] if id_optimizer == 2 else self._tasks):"),
 ("c18_cache_in_init", "C18", "harmony_search/harmony_search_optimization.py", None, None),
 ("c08_drop_reset", "C08", "abstract.py", "        self._error_diffs = []\n\n        np.random.seed(task.seed)", "\n        np.random.seed(task.seed)"),
 ("c17_trim_wrong_end", "C17,C10", "abstract.py", "        self._population = sort_and_trim(self._population, self._config.population_size)", "        self._population = sort_by_cost(self._population)[-self._config.population_size:]"),
]
def main():
    here = os.path.dirname(os.path.abspath(__file__))
    outdir = os.path.join(here, "patches")
    tmp = tempfile.mkdtemp(prefix="pvown.")
    subprocess.check_call(f"git -C /repo archive HEAD | tar -x -C {tmp}", shell=True)
    subprocess.check_call(["git", "init", "-q"], cwd=tmp)
    subprocess.check_call("git add -A && git -c user.email=a@b -c user.name=a commit -qm base", shell=True, cwd=tmp)
    made = []
    for name, props, f, old, new in M:
        if old is None:
            continue
        path = os.path.join(tmp, "pyvolutionary", f)
        s = open(path).read()
        if s.count(old) != 1:
            print("SKIP (pattern count %d)" % s.count(old), name); continue
        open(path, "w").write(s.replace(old, new))
        d = subprocess.run(["git", "diff"], cwd=tmp, capture_output=True, text=True).stdout
        open(os.path.join(outdir, f"{name}.diff"), "w").write(d)
        subprocess.check_call(["git", "checkout", "-q", "--", "."], cwd=tmp)
        made.append((name, props))
    with open(os.path.join(outdir, "INDEX.txt"), "w") as fh:
        for n, p in made:
            fh.write(f"{n} {p}\n")
    shutil.rmtree(tmp)
    print(len(made), "patches")
main()
