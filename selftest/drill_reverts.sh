#!/bin/bash
# Every `fixed` entry of known_findings.json is a ready-made realistic mutant: revert that commit alone on a scratch copy
# and the check of the property it repaired must report the violation again (a fixed entry suppresses nothing).
HERE="$(cd "$(dirname "$0")/.." && pwd)"
TIER="${1:-quick}"
jq -r '.findings[] | select(.status=="fixed") | "\(.commit) \(.property)"' "$HERE/known_findings.json" | while read commit prop; do
  "$HERE/selftest/drill.sh" "revert:$commit" "$prop" "$TIER" 2>&1 | grep -E "^DRILL|^\[C" | head -2 | cut -c1-220
done
