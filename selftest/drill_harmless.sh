#!/bin/bash
# false-alarm drill: every check must stay silent (exit 0) on each semantics-preserving refactor
HERE="$(cd "$(dirname "$0")/.." && pwd)"; TIER="${1:-quick}"; IDS="${2:-C01,C02,C03,C04,C05,C06,C07,C08,C09,C10,C11,C12,C13,C14,C15,C16,C17,C18,C19,C20}"
while read name; do
  "$HERE/selftest/drill.sh" "$HERE/selftest/harmless/$name.diff" "$IDS" "$TIER" 2>&1 | grep -E "^DRILL|^\[C..\]   \{|^INCONCLUSIVE" | sed "s|$HERE/selftest/harmless/||" | cut -c1-260
done < "$HERE/selftest/harmless/INDEX.txt"
