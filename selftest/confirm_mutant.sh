#!/bin/bash
# Confirm a sub-agent's mutant independently and file it under /verif/seeded/<name>/.
# usage: selftest/confirm_mutant.sh <raw_dir_with_patch.diff_demo.py_notes.md> <property id> <name> [jobs]
RAW="$1"; PROP="$2"; NAME="$3"; JOBS="${4:-6}"
HERE="$(cd "$(dirname "$0")/.." && pwd)"
WT=$(mktemp -d /tmp/cm.XXXXXX); rmdir "$WT"
git -C /repo worktree add -q --detach "$WT" HEAD || exit 2
trap 'git -C /repo worktree remove --force "$WT" >/dev/null 2>&1; rm -rf "$WT"' EXIT
cd "$WT"
PYTHONPATH="$WT" PYTHONDONTWRITEBYTECODE=1 timeout 600 /venv/bin/python "$RAW/demo.py" "$WT" > /tmp/cm.$$.clean 2>&1; rc_clean=$?
git -C "$WT" apply "$RAW/patch.diff" || { echo "CONFIRM $NAME: patch does not apply"; exit 3; }
PYTHONPATH="$WT" PYTHONDONTWRITEBYTECODE=1 timeout 600 /venv/bin/python "$RAW/demo.py" "$WT" > /tmp/cm.$$.mut 2>&1; rc_mut=$?
tests=$("$HERE/bin/repo_tests.sh" "$WT" "$JOBS" 2>&1 | head -1)
ok=false
if [ $rc_clean -eq 0 ] && [ $rc_mut -eq 1 ] && [ "$tests" = "passed=285 failed=0 errors=0" ]; then ok=true; fi
echo "CONFIRM $NAME prop=$PROP demo_clean_rc=$rc_clean demo_mutant_rc=$rc_mut tests='$tests' confirmed=$ok"
D="$HERE/seeded/$NAME"; mkdir -p "$D"
cp "$RAW/patch.diff" "$RAW/demo.py" "$D/"; [ -f "$RAW/notes.md" ] && cp "$RAW/notes.md" "$D/"
python3 - "$D" "$PROP" "$NAME" "$rc_clean" "$rc_mut" "$tests" "$ok" <<'PY'
import json,sys,subprocess
d,prop,name,rc_clean,rc_mut,tests,ok=sys.argv[1:8]
head=subprocess.run(['git','-C','/repo','rev-parse','--short','HEAD'],capture_output=True,text=True).stdout.strip()
meta={"property":prop,"name":name,"base_commit":head,"confirmed":ok=="true",
      "what_i_ran":{"demo on clean worktree (expect exit 0)":int(rc_clean),"demo with patch applied (expect exit 1)":int(rc_mut),
                    "repository test suite with patch applied (sharded pytest, guard off)":tests},
      "needs_to_manifest":"see notes.md (written by the sub-agent that produced the change)","caught_by":"filled in by selftest/run_seeded.sh"}
json.dump(meta,open(d+'/meta.json','w'),indent=1)
PY
rm -f /tmp/cm.$$.clean /tmp/cm.$$.mut
