#!/bin/bash
# Run the registered check(s) against every confirmed seeded change and record the outcome in its meta.json.
# usage: selftest/run_seeded.sh [tier] [name-glob]      (default: quick, all)
TIER="${1:-quick}"; GLOB="${2:-*}"
HERE="$(cd "$(dirname "$0")/.." && pwd)"
for D in "$HERE"/seeded/$GLOB/; do
  [ -f "$D/meta.json" ] || continue
  # ONLY_MISSING=1: skip changes that already have a recorded catch
  if [ -n "$ONLY_MISSING" ] && [ "$(jq -r 'if (.caught_by|type)=="array" then (.caught_by|length) else 0 end' "$D/meta.json")" != "0" ]; then continue; fi
  NAME=$(basename "$D"); PROP=$(jq -r .property "$D/meta.json"); EXTRA=$(jq -r '.also_run // [] | join(",")' "$D/meta.json")
  IDS="$PROP"; [ -n "$EXTRA" ] && IDS="$PROP,$EXTRA"
  OUT=$("$HERE/selftest/drill.sh" "$D/patch.diff" "$IDS" "$TIER" 2>&1)
  echo "$OUT" | grep "^DRILL" | sed "s|$D/patch.diff|$NAME|"
  python3 - "$D/meta.json" "$TIER" "$OUT" <<'PY'
import json,sys,re
meta=json.load(open(sys.argv[1])); tier=sys.argv[2]; out=sys.argv[3]
res=meta.setdefault("checks_run",{})
cur=None
for line in out.splitlines():
    m=re.match(r"DRILL \S+ (C\d+) rc=(\d+) (\d+) violation",line)
    if m:
        cur=f"{m.group(1)} {tier}"
        res[cur]={"exit":int(m.group(2)),"violation_lines":int(m.group(3)),"first_witnesses":[]}
    elif cur and line.startswith("["):
        res[cur]["first_witnesses"].append(line[:260])
meta["caught_by"]=sorted(k for k,v in res.items() if v["exit"]==1 and v["violation_lines"]>0)
import os
sp=os.path.join(os.path.dirname(os.path.dirname(os.path.dirname(os.path.abspath(sys.argv[1])))),"selftest","seeded_summaries.json")
try:
    summ=json.load(open(sp)).get(meta["name"])
    if summ: meta["needs_to_manifest"]=summ+" (details: notes.md)"
except Exception: pass
json.dump(meta,open(sys.argv[1],"w"),indent=1)
PY
done
