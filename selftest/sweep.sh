#!/bin/bash
# usage: selftest/sweep.sh "<ids>" "<seeds>" [tier]  -> one line per run; evidence/replays go to a temp dir
IDS="$1"; SEEDS="$2"; TIER="${3:-quick}"
HERE="$(cd "$(dirname "$0")/.." && pwd)"
T=$(mktemp -d /tmp/pvsweep.XXXXXX)
for s in $SEEDS; do for id in $IDS; do
  VERIF_SEED=$s PVMON_EVIDENCE_DIR=$T/ev PVMON_REPLAY_DIR=$T/rp "$HERE/bin/check" $id --tier $TIER > $T/out 2>&1; rc=$?
  echo "SWEEP $id seed=$s tier=$TIER rc=$rc $(grep -c '^VIOLATION' $T/out) viol, $(grep -c '^KNOWN' $T/out) known; $(grep 'wall=' $T/out | sed 's/.*wall=//')"
  [ $rc -ne 0 ] && grep -E "^\[$id\]   \{|^INCONCLUSIVE|Error|Traceback" $T/out | head -5 | cut -c1-300
done; done
rm -rf $T
