#!/usr/bin/env python3
"""Regenerates the generated parts of DESIGN.md section 8 (8.3 known-findings table, 8.5 seeded-changes table) in place,
between <!-- BEGIN x --> / <!-- END x --> markers."""
import glob, json, os, re, subprocess
here = os.path.dirname(os.path.dirname(os.path.abspath(__file__)))
kf = json.load(open(os.path.join(here, "known_findings.json")))["findings"]
why = {"C01": "integer-coded support of one algorithm (D20)",
       "C02": "reports the empire's total cost as the agent's cost: a semantic choice of what its 'agent' is (D15b)",
       "C05": "NaN produced by this algorithm's update rule (0/0, inf*0, inf-inf) and not removed by clip (D16)",
       "C06": "input- or parameter-dependent failure inside this algorithm (D17); not a one-line repair that is obviously right"}
rows = ["| property | optimizer | mechanism (key) | seen in audits | why recorded, not repaired |", "|---|---|---|---|---|"]
for f in kf:
    if f["status"] != "known" or f["property"] == "C11":
        continue
    k = f["key"]
    mech = k["kind"] if f["property"] != "C06" else f"{k['exc']} raised in {k['file']}" + (f" ({', '.join(f['sites'])})" if f.get("sites") else "")
    if k.get("context"):
        mech += f" [{k['context']}]"
    rows.append(f"| {f['property']} | {k['optimizer'].replace('Optimization', '')} | {mech} | {f.get('audit_count', '')} | {why[f['property']]} |")
t83 = "\n".join(rows)
summ = json.load(open(os.path.join(here, "selftest", "seeded_summaries.json")))
rows = ["| seeded change | property | file(s) changed | what it is / what it needs to manifest | confirmed by me | quick check(s) that report it |", "|---|---|---|---|---|---|"]
n = ncaught = nquick = 0
for d in sorted(glob.glob(os.path.join(here, "seeded", "*"))):
    mp = os.path.join(d, "meta.json")
    if not os.path.exists(mp):
        continue
    m = json.load(open(mp))
    files = re.findall(r"^\+\+\+ b/(\S+)", open(os.path.join(d, "patch.diff")).read(), re.M)
    cb = m.get("caught_by")
    cb = cb if isinstance(cb, list) else None
    caught = ("not run yet" if cb is None else (", ".join(cb) or "none")) + (f" ({m['not_reported_by_design']})" if m.get("not_reported_by_design") else "")
    n += 1
    ncaught += bool(cb)
    nquick += bool(cb) and any(c.endswith("quick") for c in cb)
    rows.append(f"| {m['name']} | {m['property']} | {', '.join(sorted(set(f.replace('pyvolutionary/', '') for f in files)))} | "
                f"{summ.get(m['name'], '')} | {'yes' if m.get('confirmed') else 'no (see meta.json)'} | {caught} |")
t85 = "\n".join(rows) + f"\n\n{ncaught} of {n} seeded changes on file are reported by at least one check ({nquick} by a quick tier).\n"
p = os.path.join(here, "DESIGN.md")
s = open(p).read()
for tag, body in (("8.3-table", t83), ("8.5-table", t85)):
    a, b = f"<!-- BEGIN {tag} -->", f"<!-- END {tag} -->"
    if a in s:
        s = s[:s.index(a) + len(a)] + "\n" + body + "\n" + s[s.index(b):]
open(p, "w").write(s)
print("8.3 rows", sum(1 for f in kf if f['status'] == 'known' and f['property'] != 'C11'), "8.5 rows", n)
