#!/bin/bash
# Runs the repository's own pytest suite (guard off), sharded per test file over N parallel pytest processes.
# usage: bin/repo_tests.sh [repo_dir] [jobs]   -> prints total passed/failed, exit 0 iff no failure and 285 passed.
# A failing test file is re-run up to 2 more times: the suite is unseeded and has rare flaky cases on the clean tree too
# (WaterCycle best_agent([]) ~1/300, AntColony fitness_error timeout).
REPO=${1:-/repo}; JOBS=${2:-12}
OUT=$(mktemp -d /tmp/pvtests.XXXXXX)
cd "$REPO" || exit 2
run_one='PYTHONPATH="$PWD" PYTHONDONTWRITEBYTECODE=1 /venv/bin/python -m pytest -q -p no:cacheprovider --timeout=900 "$1" > "$2/$(echo "$1" | tr / _).log" 2>&1; echo "$? $1" >> "$2/status"'
ls tests/test_*.py tests/algorithms/test_*.py | xargs -P "$JOBS" -I{} sh -c "$run_one" _ {} "$OUT"
retried=""
for attempt in 1 2; do
  bad=$(awk '$1!=0 {print $2}' "$OUT/status")
  [ -z "$bad" ] && break
  retried="$retried $bad"
  : > "$OUT/status.new"; grep '^0 ' "$OUT/status" > "$OUT/status.new"; mv "$OUT/status.new" "$OUT/status"
  echo "$bad" | xargs -P "$JOBS" -I{} sh -c "$run_one" _ {} "$OUT"
done
passed=$(grep -ho '[0-9]* passed' "$OUT"/*.log | awk '{s+=$1} END{print s+0}')
failed=$(grep -ho '[0-9]* failed' "$OUT"/*.log | awk '{s+=$1} END{print s+0}')
errors=$(grep -ho '[0-9]* error' "$OUT"/*.log | awk '{s+=$1} END{print s+0}')
bad=$(awk '$1!=0' "$OUT/status")
echo "passed=$passed failed=$failed errors=$errors"
[ -n "$retried" ] && echo "re-run after a first failure:$retried"
if [ -n "$bad" ]; then echo "non-zero shards:"; echo "$bad"; for f in $(echo "$bad" | awk '{print $2}'); do tail -30 "$OUT/$(echo "$f" | tr / _).log"; done; fi
rm -rf "$OUT"
[ -z "$bad" ] && [ "$passed" = "285" ]
