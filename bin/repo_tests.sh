#!/bin/bash
# Runs the repository's own pytest suite (guard off), sharded per test file over N parallel pytest processes.
# usage: bin/repo_tests.sh [repo_dir] [jobs]   -> prints total passed/failed, exit 0 iff no failure and 285 passed
REPO=${1:-/repo}; JOBS=${2:-12}
OUT=$(mktemp -d /tmp/pvtests.XXXXXX)
cd "$REPO" || exit 2
ls tests/test_*.py tests/algorithms/test_*.py | \
  xargs -P "$JOBS" -I{} sh -c 'PYTHONPATH="$PWD" PYTHONDONTWRITEBYTECODE=1 /venv/bin/python -m pytest -q -p no:cacheprovider --timeout=900 "$1" > "$2/$(echo "$1" | tr / _).log" 2>&1; echo "$? $1" >> "$2/status"' _ {} "$OUT"
passed=$(grep -ho '[0-9]* passed' "$OUT"/*.log | awk '{s+=$1} END{print s+0}')
failed=$(grep -ho '[0-9]* failed' "$OUT"/*.log | awk '{s+=$1} END{print s+0}')
errors=$(grep -ho '[0-9]* error' "$OUT"/*.log | awk '{s+=$1} END{print s+0}')
bad=$(awk '$1!=0' "$OUT/status")
echo "passed=$passed failed=$failed errors=$errors"
if [ -n "$bad" ]; then echo "non-zero shards:"; echo "$bad"; for f in $(echo "$bad" | awk '{print $2}'); do tail -30 "$OUT/$(echo "$f" | tr / _).log"; done; fi
rm -rf "$OUT"
[ -z "$bad" ] && [ "$passed" = "285" ]
