"""Build known_findings.json and c06_baseline.json from audit outputs (run by hand after an audit; never at check time).
usage: python -m pvmon.mk_known audit/serial_v2.json [audit/mixed_v2.json ...]
Every entry is keyed by MECHANISM (property, optimizer/component, kind, exception type, raising function) - never by
seed, case index or random value; `probe` is only a pinned universe index that exercises the finding on every run."""
import json
import os
import subprocess
import sys

V = os.path.dirname(os.path.dirname(os.path.abspath(__file__)))

FIXED = [
    # (property, commit subject prefix, what failed)
    ("C07", "fix: Task.seed is an integer", "Task(seed=42) was coerced to float and np.random.seed raised TypeError: seeded runs impossible (D1)"),
    ("C08", "fix: reset cycle counter and rate history", "2nd optimize() on an instance ran one cycle and returned the previous rates prepended (D2)"),
    ("C06", "fix: negate multi-objective costs element-wise", "every maximised multi-objective run raised 'Invalid number of weights' (D3)"),
    ("C14", "fix: DiscreteMultiVariable.get_bounds returns", "Task.get_bounds mis-unpacked DiscreteMultiVariable bounds (ValueError / wrong bounds) (D4)"),
    ("C14", "fix: transform_solution passes a slice", "transform_solution raised TypeError for multi-variables of size 1 (D5)"),
    ("C07", "fix: get_partner_index draws from the seeded numpy generator", "BeeColony used the unseeded stdlib random module (D7)"),
    ("C11", "fix: re-seed numpy in every pool worker process", "forked pool workers replayed one RNG stream: duplicate initial agents in process mode (D11)"),
    ("C13", "fix: PermutationVariable.correct ranks the keys", "correct = argsort: not identity on permutations, not idempotent; reported cost belonged to the inverse permutation (D6; also C02)"),
    ("C15", "fix: trend utilities rank generations in the task's direction", "agent_trend / best_agent_trend returned the worst agent for maximisation tasks (D12)"),
    ("C19", "fix: HyperTuner picks the best grid point for maximisation tasks", "HyperTuner selected the worst grid point for maximisation tasks (D13)"),
    ("C20", "fix: Multitask accepts per-algorithm and per-pair modes", "per-algorithm / per-pair modes raised, export nested algorithm folders (D14)"),
    ("C09", "fix: BeeColony keeps the number of employed bees in a private field", "BeeColony halved config.population_size on every call (D8)"),
    ("C09", "fix: Firefly decays a private copy of alpha", "Firefly rewrote config.alpha every cycle (D8)"),
    ("C18", "fix: CoralReef reads its configuration in before_initialization", "CoralReef() could not be constructed without configuration; G1/dyn_Pd leaked across runs (D9; also C08)"),
    ("C08", "fix: Fox re-initialises its minimum-time state per run", "Fox __mint leaked across runs (D10)"),
    ("C08", "fix: SuccessHistoryIntelligent re-initialises its step scale per run", "SHIO __a leaked across runs (D10)"),
    ("C08", "fix: WaterCycle re-initialises its evaporation threshold per run", "WaterCycle __ecc leaked across runs (D10)"),
    ("C08", "fix: ImperialistCompetitive rebuilds its empires on every run", "ImperialistCompetitive __empires leaked across runs (D10)"),
    ("C01", "fix: ImperialistCompetitive revolution works on a copy", "revolution swapped coordinates in place: out-of-bounds / mistyped positions with stale costs (D15; also C02, C15)"),
    ("C10", "fix: the residual group holds the agents left after the last full group", "Coyotes lost agents when num_coyotes does not divide the population (D19)"),
    ("C10", "fix: HenryGasSolubility keeps the agents that do not fill a whole cluster", "HenryGas dropped the remainder group (D19; also C17)"),
    ("C13", "fix: ContinuousVariable.correct clips in double precision", "float32/float16 inputs were clipped in low precision and left the bounds (D21)"),
]

WHAT = {
    "C01": "{optimizer}: reported position outside the search space ({kind})",
    "C02": "{optimizer}: reported cost is not the objective of the reported position ({kind})",
    "C05": "{optimizer}: objective_function called with a non-member argument ({kind})",
}


def main():
    args = sys.argv[1:]
    # files after `--sites-only` (audits of the additional batteries) only contribute raise sites to entries that exist anyway
    sites_only = set(args[args.index("--sites-only") + 1:]) if "--sites-only" in args else set()
    files = [a for a in args if a != "--sites-only"]
    agg = {}
    pairs = {}
    for f in files:
        d = json.load(open(f))
        for e in d["findings"]:
            if f in sites_only:
                k2 = dict(e["key"])
                st_ = k2.pop("site", None)
                kid2 = e["property"] + json.dumps(k2, sort_keys=True)
                if st_ and kid2 in agg:
                    agg[kid2].setdefault("sites", set()).add(st_)
                continue
            site = None
            if "func" in e["key"]:          # audits recorded the function; findings are keyed by module (see run.py)
                fn_ = e["key"].pop("func")
                e["key"]["file"] = fn_.split(":")[0]
                site = fn_.split(":", 1)[1] if ":" in fn_ else None
            if "site" in e["key"]:          # newer audits: module in the key, raising function as `site`
                site = e["key"].pop("site")
            kid = e["property"] + json.dumps(e["key"], sort_keys=True)
            a = agg.setdefault(kid, {"property": e["property"], "key": e["key"], "n": 0, "idx": [], "detail": e["detail"],
                                     "serial": d.get("mode", "serial") == "serial"})
            a["n"] += e["n"]
            if site:
                a.setdefault("sites", set()).add(site)
            a.setdefault("modes", set()).add(d.get("mode", "serial"))
            if d.get("mode") == "boundary":
                a.setdefault("contexts", set()).update(c for c in e.get("classes", {}) if str(c).startswith("boundary:"))
            if d.get("mode", "serial") == "serial":
                a["idx"] = (a["idx"] + e["idx"])[:5]
            else:
                a.setdefault("seen_in", set()).add(d.get("mode"))
        if d.get("mode", "serial") == "serial":
            for k, v in d["pairs"].items():
                p = pairs.setdefault(k, [0, 0])
                p[0] += v[0]
                p[1] += v[1]
    log = subprocess.run(["git", "-C", "/repo", "log", "--format=%h %s"], capture_output=True, text=True).stdout.splitlines()
    findings = []
    for prop, subj, what in FIXED:
        commit = next((l.split()[0] for l in log if l.split(" ", 1)[1].startswith(subj)), None)
        assert commit, subj
        findings.append({"status": "fixed", "property": prop, "commit": commit, "what": what})
    unexpected = []
    for a in sorted(agg.values(), key=lambda a: (a["property"], json.dumps(a["key"], sort_keys=True))):
        prop, key = a["property"], dict(a["key"])
        strict = key.pop("strict", None)
        if prop == "C06":
            if not strict:
                continue            # integer-coded class: judged by the baseline table, not by key
            what = (f"{key['optimizer']}: optimize() on a valid continuous task fails with {key['exc']} raised in {key['file']} "
                    f"(input-dependent; e.g. {a['detail'][:110]})")
        elif prop in WHAT:
            what = WHAT[prop].format(**key) + f"; e.g. {a['detail'][:120]}"
        else:
            unexpected.append(a)
            continue
        sites = sorted(a.get("sites", [])) if prop == "C06" else []
        ents = []
        if a.get("modes") == {"boundary"}:
            # seen only on boundary-battery cases: one entry per parameter that was at the edge
            for ctx in sorted(a.get("contexts", [])):
                ents.append({"status": "known", "property": prop, "key": {**key, "context": ctx},
                             "what": what + f" [only with the configuration parameter '{ctx.split(':', 1)[1]}' at the edge of its accepted range]",
                             "audit_count": a["n"], "seen_in": ["boundary"], **({"sites": sites} if sites else {})})
        else:
            ent = {"status": "known", "property": prop, "key": key, "what": what, "audit_count": a["n"], **({"sites": sites} if sites else {})}
            if a.get("seen_in"):
                ent["seen_in"] = sorted(a["seen_in"])
            if a["idx"]:
                ent["probe"] = a["idx"][0]
            ents.append(ent)
        findings.extend(ents)
        ent = ents[0] if ents else {"key": key}
        if prop in ("C01", "C02") and "context" not in ent["key"]:      # the same mechanism seen through C11's result oracles in thread/process mode
            k2 = dict(key)
            k2["kind"] = f"{prop}:{key['kind']}"
            findings.append({"status": "known", "property": "C11", "key": k2, "what": what + " [same defect observed in thread/process mode]"})
    json.dump({"note": "read-only at check time; `known` entries are genuine defects recorded rather than repaired, keyed by mechanism; "
                       "`fixed` entries document repaired defects and suppress nothing",
               "findings": findings}, open(os.path.join(V, "known_findings.json"), "w"), indent=1)
    json.dump({"note": "audited success counts [ok, total] of (optimizer|task kind) pairs over the serial universe; used by C06 for the "
                       "integer-coded class (a pair with rate >= 0.9 must not fail wholesale)",
               "universe": [f for f in files if f not in sites_only], "pairs": pairs}, open(os.path.join(V, "c06_baseline.json"), "w"), indent=1)
    print(f"{sum(f['status'] == 'known' for f in findings)} known, {sum(f['status'] == 'fixed' for f in findings)} fixed")
    for a in unexpected:
        print("UNEXPECTED (not turned into a known finding - decide by hand):", a["property"], a["key"], a["n"], a["idx"], a["detail"][:200])


if __name__ == "__main__":
    main()
