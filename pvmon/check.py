"""bin/check <ID> [--tier quick|thorough] [--replay FILE]; exit 0 held / 1 VIOLATION / 2 INCONCLUSIVE"""
import argparse
import importlib
import json
import os
import sys

MODULES = {
    "C01": "simple", "C02": "simple", "C03": "simple", "C05": "simple", "C10": "simple", "C17": "simple",
    "C04": "c04", "C06": "c06", "C07": "c07", "C08": "c08", "C09": "c09", "C11": "c11", "C12": "c12", "C13": "c13",
    "C14": "c14", "C15": "c15", "C16": "c16", "C18": "c18", "C19": "c19", "C20": "c20",
}


def main(argv=None):
    ap = argparse.ArgumentParser()
    ap.add_argument("prop")
    ap.add_argument("--tier", default=os.environ.get("VERIF_TIER", "quick"), choices=["quick", "thorough"])
    ap.add_argument("--replay")
    a = ap.parse_args(argv)
    seed = int(os.environ.get("VERIF_SEED", "0") or 0)
    prop = a.prop.upper()
    try:
        from pvmon import env  # noqa: F401
    except Exception as e:
        print(f"INCONCLUSIVE property={prop} reason=cannot import pyvolutionary from the repository: {e!r}")
        return 2
    mod = importlib.import_module("pvmon.props." + MODULES[prop])
    if a.replay:
        data = json.load(open(a.replay))
        still = mod.replay(prop, data)
        print(f"[{prop}] recorded observation: {data.get('observation')}")
        if still:
            print(f"VIOLATION property={prop} replay={a.replay}")
            return 1
        print(f"[{prop}] replay did not reproduce the violation on the current tree")
        return 0
    return mod.check(prop, a.tier, seed)


if __name__ == "__main__":
    sys.exit(main())
