"""work functions for the single-run campaign (used by C01,C02,C03,C04-obs,C05,C06,C09,C10,C15a,C17 and the audit)"""
import os

from . import run, universe


def work(item, opts):
    """item: universe index (int) or {"i": index, "mode":..., "workers":..., "delay":...} or a full case dict"""
    if isinstance(item, int):
        case = universe.case(item)
    elif "opt" in item:
        case = item
    elif "b" in item:
        case = universe.battery()[item["b"]]
    elif "n" in item:
        case = universe.battery_inf()[item["n"]]
    elif "v" in item:
        case = dict(universe.boundary_battery()[item["v"]])
    elif "s" in item:
        case = dict(universe.small_population_battery()[item["s"]])
    elif "y" in item:
        case = dict(universe.types_battery()[item["y"]])
    elif "e" in item:
        case = universe.case_ext(item["e"])
        for k in ("mode", "workers"):
            if k in item:
                case[k] = item[k]
    else:
        case = universe.case(item["i"])
        for k in ("mode", "workers"):
            if k in item:
                case[k] = item[k]
    if isinstance(item, dict) and "seed" in item and "opt" not in item:
        case["spec"] = dict(case["spec"], seed=None if item["seed"] == "none" else item["seed"])
    delay = item.get("delay") if isinstance(item, dict) else None
    if isinstance(item, dict) and item.get("prior"):
        # the same optimizer instance is first used on a sibling task (same variables; other objectives, weights, seed)
        import json, random
        rng = random.Random(f"prior/{case.get('i')}")
        priors = []
        for _ in range(int(item["prior"])):
            sp = json.loads(json.dumps(case["spec"]))
            sp["seed"] = rng.randint(0, 2 ** 32 - 1)
            if sp.get("weights") is not None:
                sp["weights"] = [rng.choice([0.1, 0.7, 2.0, 5.0]) for _ in sp["weights"]]
            for o in sp["obj"]:
                o.setdefault("p", {})["offset"] = rng.choice([0.0, -7.5, 3.0])
            if rng.random() < 0.3:
                sp["minmax"] = "max" if sp["minmax"] == "min" else "min"
            if item.get("prior_abort"):
                sp["_raise_after"] = int(case["cfg"]["population_size"] * rng.choice([1.5, 3.5]))
            priors.append(sp)
        case["prior"] = priors
        if item.get("reconf"):
            # the instance is first configured differently (other population size), used, then re-configured through
            # set_config_parameters with the judged configuration
            pc = dict(case["cfg"])
            base = universe.base_configs()[case["opt"]]["population_size"]
            for f in rng.sample([1, 1.5, 2, 3], 4):
                pc["population_size"] = int(base * f)
                if pc["population_size"] != case["cfg"]["population_size"] and universe.config_valid(case["opt"], pc):
                    case["prior_cfg"] = pc
                    break
    # every sixth case (by a hash of optimizer and case label) runs with the optimizer's debug output switched on
    import zlib
    if "debug" not in case and zlib.crc32(f"{case['opt']}/{case.get('i')}".encode()) % 6 == 0:
        case = dict(case, debug=True)
    from . import hooks
    hooks.cov_start()
    utils = bool(opts.get("utils"))
    yielding = isinstance(item, dict) and item.get("yield") and case.get("mode") == "thread" and \
        hooks.yield_start(f"{item.get('i')}-{item.get('workers')}", p=0.3)
    obs = run.run_case(case, cpu_budget=opts.get("cpu_budget", 120.0), delay=delay,
                       workdir=os.environ.get("PVMON_WORKDIR"), keep_result=utils,
                       record_args=bool(opts.get("record_args")))
    if yielding:
        obs["stats"]["yields_injected"] = hooks.yield_stop()
    if utils:
        result = obs.pop("_result", None)
        for k in ("_mon", "_log", "_opt"):
            obs.pop(k, None)
        if result is not None and obs["outcome"] == "ok":
            import random
            from .props import c15
            rng = random.Random(f"utils/{opts.get('seed', 0)}/{case.get('i')}")
            obs["stats"]["utils_judged"] = c15.utils_oracle(obs, result, case["spec"].get("minmax", "min"), rng)
    obs["cov"] = hooks.cov_take()
    return obs
