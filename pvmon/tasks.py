"""Harness-owned task specs, objectives, membership oracle, decoder and the instrumented Task classes.

A *spec* is JSON: {"vars": [[kind, ...], ...], "obj": [objective, ...], "weights": [...]|None, "minmax": "min"|"max",
"seed": int|None}.  Variable kinds:
  ["c", lb, ub]            ContinuousVariable
  ["cm", [lb..], [ub..]]   ContinuousMultiVariable
  ["mo", [lb..], [ub..]]   MultiObjectiveVariable
  ["d", [choices]]         DiscreteVariable        (numeric choices)
  ["dm", [[choices]..]]    DiscreteMultiVariable
  ["b", n]                 BinaryVariable
  ["p", [items]]           PermutationVariable
An objective is {"fam": str, "p": {...}} evaluated by the harness's own pure function on the *encoded* argument the
library hands to objective_function.  Nothing in the oracles calls repository code.
"""
import json
import math
import os
import time
import hashlib
import threading

import numpy as np

from . import env
from pyvolutionary import (Task, ContinuousVariable, ContinuousMultiVariable, MultiObjectiveVariable,
                           DiscreteVariable, DiscreteMultiVariable, BinaryVariable, PermutationVariable)

PRIMES = [2.0, 3.0, 5.0, 7.0, 11.0, 13.0, 17.0, 19.0, 23.0, 29.0, 31.0, 37.0, 41.0, 43.0, 47.0, 53.0]


# ---------------------------------------------------------------------------------------------------------------
# flat description of the scalar coordinates of a spec
class SteppedVariable(ContinuousVariable):
    """a user-defined variable kind: a continuous variable whose own correct() clips AND snaps to a grid of width `step`
    (anchored at the lower bound).  Users may subclass the variable types; the library must keep calling THEIR correct()."""
    step: float = 0.25

    def correct(self, value):
        v = super().correct(value)
        if not np.isfinite(v):
            return v                # like the base class: a NaN stays a NaN (and is reported as a non-member)
        k = round((v - self.lower_bound) / self.step)
        return float(min(self.upper_bound, max(self.lower_bound, self.lower_bound + k * self.step)))

    def randomize(self):
        return self.correct(super().randomize())


def on_grid(lb, step, c):
    k = (c - lb) / step
    return abs(k - round(k)) < 1e-6


def flat_vars(spec_vars):
    """-> list of ("c", lb, ub) | ("d", choices) | ("p", n_items) per scalar coordinate, in task order"""
    out = []
    for v in spec_vars:
        k = v[0]
        if k == "c":
            out.append(("c", float(v[1]), float(v[2])))
        elif k == "cs":
            out.append(("c", float(v[1]), float(v[2]), float(v[3])))
        elif k in ("cm", "mo"):
            out.extend(("c", float(a), float(b)) for a, b in zip(v[1], v[2]))
        elif k == "d":
            out.append(("d", list(v[1])))
        elif k == "dm":
            out.extend(("d", list(ch)) for ch in v[1])
        elif k == "b":
            out.extend(("d", [0, 1]) for _ in range(v[1]))
        elif k == "p":
            out.append(("p", len(v[1])))
        else:
            raise ValueError(k)
    return out


def var_sizes(spec_vars):
    out = []
    for v in spec_vars:
        k = v[0]
        out.append({"c": 1, "cs": 1, "d": 1, "p": 1}.get(k) or (len(v[1]) if k in ("cm", "mo", "dm") else v[1]))
    return out


_REAL = (int, float, np.floating, np.integer)
_INT = (int, np.integer)


def member(flat, pos):
    """C01/C05 membership oracle.  Returns None if `pos` is a member of the search space, else a reason string
    of the form '<kind>: detail' where kind is a stable mechanism label."""
    if not isinstance(pos, (list, tuple)):
        return f"not-a-list: {type(pos).__name__}"
    if len(pos) != len(flat):
        return f"length: {len(pos)} != {len(flat)}"
    for i, (c, v) in enumerate(zip(pos, flat)):
        k = v[0]
        if k == "c":
            if isinstance(c, (bool, np.bool_)) or not isinstance(c, _REAL):
                return f"continuous-type: coord {i} is {type(c).__name__}"
            if c != c:
                return f"nan-coordinate: coord {i}"
            if not math.isfinite(c):
                return f"inf-coordinate: coord {i} = {c}"
            if not (v[1] <= c <= v[2]):
                return f"out-of-bounds: coord {i} = {c!r} not in [{v[1]!r}, {v[2]!r}]"
            if len(v) > 3 and not on_grid(v[1], v[3], c):
                return f"off-grid: coord {i} = {c!r} is not on the variable's grid (step {v[3]!r} from {v[1]!r})"
        elif k == "d":
            if isinstance(c, (bool, np.bool_)) or not isinstance(c, _INT):
                return f"index-type: coord {i} is {type(c).__name__} ({c!r})"
            if not (0 <= c < len(v[1])):
                return f"index-range: coord {i} = {c!r} not in 0..{len(v[1]) - 1}"
        else:
            n = v[1]
            if isinstance(c, np.ndarray) and c.ndim == 1:
                c = list(c)
            if not isinstance(c, (list, tuple)):
                return f"permutation-type: coord {i} is {type(c).__name__}"
            if len(c) != n:
                return f"permutation-length: coord {i} has {len(c)} entries, expected {n}"
            for e in c:
                if isinstance(e, (bool, np.bool_)) or not isinstance(e, _INT):
                    return f"permutation-entry-type: coord {i} holds {type(e).__name__}"
            if sorted(int(e) for e in c) != list(range(n)):
                return f"not-a-permutation: coord {i} = {list(c)!r}"
    return None


def reason_kind(reason: str) -> str:
    return reason.split(":", 1)[0]


# ---------------------------------------------------------------------------------------------------------------
# objectives
def numeric_view(flat, x):
    """(z, perms): z = numeric value of every non-permutation coordinate (continuous as is, discrete -> the chosen
    numeric label), perms = list of index lists.  Total: a non-member coordinate is mapped to something numeric
    (NaN for NaN, clipped index) so that the objective never raises - the violation is recorded by the monitor."""
    z = []
    perms = []
    for c, v in zip(x, flat):
        k = v[0]
        if k == "c":
            try:
                z.append(float(c))
            except Exception:
                z.append(float("nan"))
        elif k == "d":
            try:
                if c != c:
                    z.append(float("nan"))
                    continue
                idx = int(c)
                idx = min(max(idx, 0), len(v[1]) - 1)
                lab = v[1][idx]
                if not isinstance(lab, (int, float)) or isinstance(lab, bool):
                    lab = idx          # non-numeric labels (strings, tuples, None): the objective works on the index
                z.append(float(lab) + (float(c) - idx) * 0.123 if float(c) != idx else float(lab))
            except Exception:
                z.append(float("nan"))
        else:
            try:
                perms.append([float(e) for e in c])
            except Exception:
                perms.append([float("nan")] * v[1])
    return z, perms


def _frac(v):
    return v - math.floor(v)


def _f_vec(fam, p, z):
    n = len(z)
    if n == 0:
        return 0.0
    if fam == "sphere":            # shifted, coordinate-weighted: distinguishes x from -x and from swapped x
        sh = p.get("shift", 0.3)
        return float(sum((i + 1) * (z[i] - sh * (i + 1)) ** 2 for i in range(n)))
    if fam == "abs":
        sh = p.get("shift", 0.3)
        return float(sum((i + 1) * abs(z[i] - sh) for i in range(n)))
    if fam == "linear":
        return float(sum(((-1) ** i) * (i + 1.5) * z[i] for i in range(n)))
    if fam == "rastrigin":
        sh = p.get("shift", 0.2)
        return float(10 * n + sum((z[i] - sh * (i + 1)) ** 2 - 10 * math.cos(2 * math.pi * (z[i] - sh * (i + 1)))
                                  for i in range(n)))
    if fam == "hash":              # chaotic, all costs distinct with probability ~1
        s = sum(z[i] * PRIMES[i % len(PRIMES)] for i in range(n))
        v = math.sin(s) * 43758.5453
        return float(_frac(v)) if math.isfinite(v) else float("nan")
    if fam == "penalty":           # death penalty: +inf outside the feasible box, coordinate-weighted sphere inside
        t = p.get("thr", 1.0)
        if any((zi != zi) or abs(zi) > t for zi in z):
            return float("inf")
        return float(sum((i + 1) * (z[i] - 0.1 * (i + 1)) ** 2 for i in range(n)))
    if fam == "jackpot":           # an unbounded reward: -inf on a target box (log of a distance that reaches 0), sphere elsewhere
        t = p.get("thr", 1.0)
        if all((zi == zi) and abs(zi) <= t for zi in z):
            return float("-inf")
        return float(sum((i + 1) * z[i] ** 2 if z[i] == z[i] else float("nan") for i in range(n)))
    if fam == "hinge":             # tolerance band: exactly 0 on a whole region, coordinate-weighted outside
        t = p.get("tol", 1.0)
        return float(sum((i + 1) * max(0.0, abs(z[i]) - t) if z[i] == z[i] else float("nan") for i in range(n)))
    if fam == "plateau":           # many ties
        q = p.get("q", 2.0)
        return float(sum(math.floor(abs(z[i]) / q) if math.isfinite(z[i]) else float("nan") for i in range(n)))
    raise ValueError(fam)


def _f_perm(fam, p, perm):
    n = len(perm)
    if fam == "sq":                # sum (i+1)^2 p[i] : not invariant under inversion
        return float(sum((i + 1) ** 2 * perm[i] for i in range(n)))
    if fam == "assign" or fam == "tour":
        seed = int(p.get("wseed", 1))
        w = [[_frac(math.sin((seed * 131 + i * 17 + j * 31 + 1) * 12.9898) * 43758.5453) * 10 for j in range(n)]
             for i in range(n)]
        try:
            idx = [int(e) for e in perm]
            if any(e < 0 or e >= n for e in idx):
                return float("nan")
        except Exception:
            return float("nan")
        if fam == "assign":        # W is not symmetric
            return float(sum(w[i][idx[i]] for i in range(n)))
        return float(sum(w[idx[i]][idx[(i + 1) % n]] for i in range(n)))   # directed tour
    raise ValueError(fam)


VEC_FAMS = ("sphere", "abs", "linear", "rastrigin", "hash", "plateau", "hinge", "penalty", "jackpot")
PERM_FAMS = ("sq", "assign", "tour")


def eval_objective(obj, flat, x):
    """one objective {"fam","p"} on an encoded argument -> float"""
    p = obj.get("p", {})
    z, perms = numeric_view(flat, x)
    fam = obj["fam"]
    if fam in PERM_FAMS:
        val = sum(_f_perm(fam, p, pm) for pm in perms) + (0.0 if not z else _f_vec("sphere", {}, z))
    else:
        val = _f_vec(fam, p, z) + sum(_f_perm("sq", {}, pm) for pm in perms)
    val = val * p.get("scale", 1.0) + p.get("offset", 0.0)
    return float(val)


def _ret(kind, v):
    """the Python / numpy type in which the user's objective hands its value back (spec["ret"])"""
    if kind == "np64":
        return np.float64(v)
    if kind == "np32":
        return np.float32(v)
    if kind in ("np0d", "np0d_memo"):
        return np.array(v)          # a 0-dimensional array, e.g. np.squeeze(x.T @ Q @ x)
    if kind == "int":
        return int(round(v)) if math.isfinite(v) else v
    return v


def eval_spec(spec, x, flat=None):
    """what objective_function returns for this spec: float (single) or list of floats (multi-objective)"""
    flat = flat if flat is not None else flat_vars(spec["vars"])
    vals = [eval_objective(o, flat, x) for o in spec["obj"]]
    if spec.get("ret"):
        vals = [_ret(spec["ret"], v) for v in vals]
    return vals if spec.get("weights") is not None else vals[0]


def reported_cost(spec, x, flat=None):
    """the cost the library must report for position x, in the user's sign"""
    v = eval_spec(spec, x, flat)
    if spec.get("weights") is not None:
        return float(np.dot(v, spec["weights"]))
    return float(v)


def fitness_of(cost):
    return (1 / (cost + 1)) if cost >= 0 else (1 + abs(cost))


# ---------------------------------------------------------------------------------------------------------------
# harness decoder (labels); the permutation labelling is learnt from the variable itself, see props/c02
def decode(spec_vars, pos, perm_labels=None):
    out = {}
    i = 0
    for j, v in enumerate(spec_vars):
        k = v[0]
        name = f"v{j}"
        if k in ("c", "cs"):
            out[name] = pos[i]; i += 1
        elif k in ("cm", "mo"):
            n = len(v[1]); out[name] = list(pos[i:i + n]); i += n
        elif k == "d":
            out[name] = v[1][int(pos[i])]; i += 1
        elif k == "dm":
            n = len(v[1]); out[name] = [v[1][t][int(pos[i + t])] for t in range(n)]; i += n
        elif k == "b":
            n = v[1]; out[name] = [[0, 1][int(pos[i + t])] for t in range(n)]; i += n
        else:
            labels = perm_labels[name] if perm_labels else v[1]
            out[name] = [labels[int(e)] for e in pos[i]]; i += 1
    return out


# ---------------------------------------------------------------------------------------------------------------
# call recording.  In the process that started the run calls are appended to an in-memory record; in pool worker
# processes (pid differs) one line per call is appended to a per-run file (O_APPEND, < PIPE_BUF: atomic).
class CallLog:
    def __init__(self, record_args=False):
        self.n = 0
        self.bad = []            # (reason, repr(arg)) of non-member arguments (first 50)
        self.n_bad = 0
        self.args = [] if record_args else None
        self.threads = set()
        self.lock = threading.Lock()


_RUNS = {}          # rid -> (spec, flat, CallLog)
_RAISE_COUNT = {}   # rid -> objective calls so far (tasks whose objective aborts the run after a budget)
_FLAT_CACHE = {}


def register_run(rid, spec, record_args=False):
    log = CallLog(record_args)
    _RUNS[rid] = (spec, flat_vars(spec["vars"]), log)
    return log


def unregister_run(rid):
    _RUNS.pop(rid, None)
    _MEMO.pop(rid, None)


def _jsonable(x):
    if isinstance(x, (list, tuple)):
        return [_jsonable(e) for e in x]
    if isinstance(x, np.ndarray):
        return _jsonable(x.tolist())
    if isinstance(x, (np.floating,)):
        return float(x)
    if isinstance(x, (np.integer,)):
        return int(x)
    if isinstance(x, float) or isinstance(x, int) or isinstance(x, str) or x is None:
        return x
    return repr(x)


def _delay(d, x):
    """seeded 0..max_ms delay derived from the argument digest and a per-run salt (never touches an RNG)"""
    if d.get("fixed_ms"):
        time.sleep(d["fixed_ms"] / 1000.0)
        return
    h = hashlib.blake2b((d["salt"] + repr(x)).encode(), digest_size=2).digest()
    ms = d["max_ms"] * (h[0] / 255.0) if h[1] < 256 * d.get("p", 0.5) else 0.0
    if ms > 0:
        time.sleep(ms / 1000.0)


class _MonMixin:
    def objective_function(self, x):
        data = self.data
        rid = data["rid"]
        ent = _RUNS.get(rid)
        if ent is None:     # e.g. spawned (not forked) child, or replay outside the harness
            spec = data["spec"]
            ent = (spec, flat_vars(spec["vars"]), None)
            _RUNS[rid] = ent
        spec, flat, log = ent
        reason = member(flat, x)
        if os.getpid() != data["pid"]:
          if data.get("calls_file"):
            rec = {"r": reason}
            if reason is not None or data.get("rec"):
                rec["a"] = _jsonable(x)
            line = (json.dumps(rec) + "\n").encode()
            fd = os.open(data["calls_file"], os.O_WRONLY | os.O_APPEND | os.O_CREAT, 0o644)
            try:
                os.write(fd, line)
            finally:
                os.close(fd)
          # (no per-run file: a foreign process-pool, e.g. HyperTuner / Multitask trials - nothing to record)
        elif log is not None:
            with log.lock:
                log.n += 1
                log.threads.add(threading.get_ident())
                if reason is not None:
                    log.n_bad += 1
                    if len(log.bad) < 50:
                        log.bad.append((reason, repr(_jsonable(x))))
                if log.args is not None:
                    log.args.append(_jsonable(x))
        d = data.get("delay")
        if d:
            _delay(d, x)
        if data.get("spec", {}).get("mutate"):
            # some users decode or normalise the argument in place; the library hands the objective a private list
            out_ = eval_spec(spec, x, flat)
            try:
                x[0] = -12345.678       # outside every battery task's bounds / not an index
            except Exception:
                pass
            return out_
        ra = data.get("raise_after")
        if ra is not None:
            cnt = _RAISE_COUNT.get(rid, 0) + 1
            _RAISE_COUNT[rid] = cnt
            if cnt > ra:
                raise RuntimeError("evaluation budget exhausted (raised by the harness objective on purpose)")
        if spec.get("ret") == "np0d_memo" and spec.get("weights") is None:
            # a memoising objective: the value of a position is computed once, kept as a 0-d array in the user's own cache and
            # the SAME array object is handed out again when the position comes back (valid use: the library gets a value,
            # it does not own the object)
            key = json.dumps(_jsonable(x))
            with _MEMO_LOCK:
                memo = _MEMO.setdefault(rid, {})
                arr = memo.get(key)
                if arr is None:
                    arr = memo[key] = eval_spec(spec, x, flat)
            return arr
        return eval_spec(spec, x, flat)


_MEMO = {}
_MEMO_LOCK = threading.Lock()


class MonTask(_MonMixin, Task):
    pass


class MonTaskB(_MonMixin, Task):
    pass


class MonTaskC(_MonMixin, Task):
    pass


TASK_CLASSES = {"MonTask": MonTask, "MonTaskB": MonTaskB, "MonTaskC": MonTaskC}


def build_variables(spec_vars):
    out = []
    for j, v in enumerate(spec_vars):
        k = v[0]
        name = f"v{j}"
        if k == "c":
            out.append(ContinuousVariable(name=name, lower_bound=v[1], upper_bound=v[2]))
        elif k == "cs":
            out.append(SteppedVariable(name=name, lower_bound=v[1], upper_bound=v[2], step=v[3]))
        elif k == "cm":
            out.append(ContinuousMultiVariable(name=name, lower_bounds=list(v[1]), upper_bounds=list(v[2])))
        elif k == "mo":
            out.append(MultiObjectiveVariable(name=name, lower_bounds=list(v[1]), upper_bounds=list(v[2])))
        elif k == "d":
            out.append(DiscreteVariable(name=name, choices=list(v[1])))
        elif k == "dm":
            out.append(DiscreteMultiVariable(name=name, choices=[list(c) for c in v[1]]))
        elif k == "b":
            out.append(BinaryVariable(name=name, n_vars=v[1]))
        elif k == "p":
            out.append(PermutationVariable(name=name, items=list(v[1])))
        else:
            raise ValueError(k)
    return out


def build_task(spec, rid, calls_file=None, record_args=False, delay=None, cls="MonTask", extra_data=None):
    """build the real Task object; seeds are passed exactly as documented (seed=<int>)"""
    data = {"rid": rid, "spec": spec, "pid": os.getpid(), "calls_file": calls_file, "rec": bool(record_args)}
    if delay:
        data["delay"] = delay
    if extra_data:
        data.update(extra_data)
    kw = dict(variables=build_variables(spec["vars"]), minmax=spec.get("minmax", "min"), data=data)
    if spec.get("weights") is not None:
        kw["objective_weights"] = list(spec["weights"])
    if spec.get("seed") is not None:
        kw["seed"] = spec["seed"]
    return TASK_CLASSES[cls](**kw)


def read_calls_file(path):
    """-> (n_calls, [(reason, arg)], [args]|[])"""
    n = 0
    bad = []
    args = []
    if not path or not os.path.exists(path):
        return 0, bad, args
    with open(path) as f:
        for line in f:
            line = line.strip()
            if not line:
                continue
            n += 1
            rec = json.loads(line)
            if rec.get("r") is not None:
                bad.append((rec["r"], repr(rec.get("a"))))
            if "a" in rec and rec.get("r") is None:
                args.append(rec["a"])
            elif "a" in rec:
                args.append(rec["a"])
    return n, bad, args


def kind_of_spec(spec):
    ks = {v[0] for v in spec["vars"]}
    if spec.get("weights") is not None:
        return "multiobjective"
    if ks <= {"c", "cm", "cs"}:
        return "continuous"
    if ks == {"p"}:
        return "permutation"
    if ks <= {"d"}:
        return "discrete"
    if ks <= {"dm"}:
        return "discrete-multi"
    if ks <= {"b"}:
        return "binary"
    return "mixed"


def is_strict_class(spec):
    """continuous single / multi / multi-objective: the class on which C06 is checked strictly"""
    return {v[0] for v in spec["vars"]} <= {"c", "cm", "mo", "cs"}


def selftest_objectives(rng):
    """unit test of the harness objectives: each must distinguish p from p^-1, x from -x and x from swapped x"""
    import itertools
    flat = [("c", -5.0, 5.0)] * 3
    for fam in ("sphere", "abs", "linear", "rastrigin", "hash"):
        o = {"fam": fam, "p": {}}
        x = [rng.uniform(-5, 5) for _ in range(3)]
        assert eval_objective(o, flat, x) != eval_objective(o, flat, [-v for v in x]), fam
        assert eval_objective(o, flat, x) != eval_objective(o, flat, [x[1], x[0], x[2]]), fam
    n = 5
    flatp = [("p", n)]
    for fam in PERM_FAMS:
        o = {"fam": fam, "p": {"wseed": 3}}
        diff = 0
        for p in itertools.permutations(range(n)):
            inv = [0] * n
            for i, e in enumerate(p):
                inv[e] = i
            if list(p) != inv and eval_objective(o, flatp, [list(p)]) != eval_objective(o, flatp, [inv]):
                diff += 1
        assert diff > 40, (fam, diff)
    return True
