"""One-off audit of the case universe with all single-run oracles (DESIGN 1.2).
usage: python -m pvmon.audit START END OUTFILE [mode]
Aggregates violation keys (count, first indices) per property and the C06 (optimizer, kind) outcome table."""
import collections
import json
import sys
import time

from . import env, runner, universe
from .runner import Lost


def main():
    start, end, out = int(sys.argv[1]), int(sys.argv[2]), sys.argv[3]
    mode = sys.argv[4] if len(sys.argv) > 4 else "serial"
    agg = {}
    pairs = collections.defaultdict(lambda: [0, 0])
    exc_int = collections.Counter()
    outcomes = collections.Counter()
    t0 = time.time()
    CH = 20000
    import random
    rng = random.Random(start)
    for s in range(start, end, CH):
        idx = list(range(s, min(end, s + CH)))
        if mode == "serial":
            items = idx
        elif mode == "ext":
            items = [{"e": i} for i in idx]
        elif mode == "types":
            items = [{"y": i} for i in idx if i < len(universe.types_battery())]
            idx = idx[:len(items)]
        elif mode == "small":
            items = [{"s": i} for i in idx if i < len(universe.small_population_battery())]
            idx = idx[:len(items)]
        elif mode == "boundary":
            items = [{"v": i} for i in idx if i < len(universe.boundary_battery())]
            idx = idx[:len(items)]
        elif mode == "inf":
            items = [{"n": i} for i in idx if i < len(universe.battery_inf())]
            idx = idx[:len(items)]
        elif mode == "battery":
            items = [{"b": i} for i in idx if i < len(universe.battery())]
            idx = idx[:len(items)]
        else:
            items = []
            for i in idx:
                m = rng.choice(["thread", "thread", "process"]) if mode == "mixed" else mode
                items.append({"i": i, "mode": m, "workers": rng.choice([1, 2, 3, 4, 8, 16] if m == "thread" else [1, 2, 3, 4]),
                              "delay": {"salt": str(i), "max_ms": 2.0, "p": 0.3}})
        jobs = None if mode == "serial" else 8
        res = runner.run_parallel("pvmon.campaign", "work", items, {}, jobs=jobs)
        for i, r in zip(idx, res):
            if isinstance(r, Lost):
                outcomes["lost"] += 1
                continue
            outcomes[r["outcome"]] += 1
            pk = f"{r['opt']}|{r['kind']}"
            pairs[pk][1] += 1
            if r["outcome"] == "ok":
                pairs[pk][0] += 1
            for prop, vs in r["viol"].items():
                for v in vs:
                    key = dict(v["key"])
                    if prop == "C06":
                        key["strict"] = r["strict"]
                    kid = prop + " " + json.dumps(key, sort_keys=True)
                    e = agg.setdefault(kid, {"property": prop, "key": key, "n": 0, "idx": [], "detail": v["detail"],
                                             "classes": collections.Counter(), "kinds": collections.Counter()})
                    e["n"] += 1
                    e["classes"][r["cfg_class"]] += 1
                    e["kinds"][r["kind"]] += 1
                    if len(e["idx"]) < 5:
                        e["idx"].append(i)
        with open(out, "w") as f:
            json.dump({"range": [start, min(end, s + CH)], "mode": mode, "outcomes": outcomes, "wall_s": time.time() - t0,
                       "universe": universe.UNIVERSE_VERSION, "repo_head": env.repo_head(),
                       "findings": sorted(agg.values(), key=lambda e: (e["property"], -e["n"])),
                       "pairs": pairs}, f, indent=1)
        print(f"audited {min(end, s + CH) - start} cases in {time.time() - t0:.0f}s, {len(agg)} keys", flush=True)


if __name__ == "__main__":
    main()
