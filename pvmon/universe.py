"""The audited case universe (DESIGN 1.2).  case(i) is a pure function of the integer i and of UNIVERSE_VERSION.

A case: {"i", "opt", "cfg" (dict for the optimizer's config model), "cfg_class" ("base"|"perturbed"),
         "spec" (task spec, see tasks.py), "mode", "workers"}.
"""
import json
import os
import random

from . import env
from .tasks import VEC_FAMS, PERM_FAMS

UNIVERSE_VERSION = "pvmon-v2"
UNIVERSE_SIZE = int(os.environ.get("PVMON_UNIVERSE", "400000"))

_BASE = None


def base_configs():
    global _BASE
    if _BASE is None:
        raw = json.load(open(os.path.join(os.path.dirname(__file__), "base_configs.json")))
        _BASE = {raw[k + "#opt"]: v for k, v in raw.items() if not k.endswith("#opt")}
    return _BASE


OPT_NAMES = None


def opt_names():
    global OPT_NAMES
    if OPT_NAMES is None:
        OPT_NAMES = sorted(env.optimizer_classes())
    return OPT_NAMES


def config_valid(opt, cfg):
    try:
        env.config_class(opt)(**cfg)
        return True
    except Exception:
        return False


def make_config(rng, opt, perturbed=None, pop_factor=None, max_cycles=None, stop=True):
    base = dict(base_configs()[opt])
    f = pop_factor if pop_factor is not None else rng.choice([1, 1, 1.5, 2, 3])
    base["population_size"] = int(base["population_size"] * f)
    base["max_cycles"] = max_cycles if max_cycles is not None else rng.choice([1, 2, 3, 5, 8, 13])
    if stop:
        base["fitness_error"] = rng.choice([None, None, 1e-9, 0.05, 0.5])
        if rng.random() < 0.3:
            base["early_stopping"] = {"patience": rng.choice([1, 2, 3]), "min_delta": rng.choice([1e-4, 1e-2, 0.5])}
    else:
        base["fitness_error"] = None
    if not config_valid(opt, base):       # e.g. a parameter tied to the documented population size
        base["population_size"] = base_configs()[opt]["population_size"]
    klass = "base"
    if perturbed is None:
        perturbed = rng.random() < 0.3
    if perturbed:
        klass = "perturbed"
        # optional parameters the documented configuration leaves at their defaults
        fields = env.config_class(opt).model_fields
        for k in sorted(fields):
            if k in base or k in ("early_stopping", "fitness_error"):
                continue
            d = fields[k].default
            trial = dict(base)
            if isinstance(d, bool):
                trial[k] = (not d) if rng.random() < 0.5 else d
            elif isinstance(d, int):
                trial[k] = d + rng.choice([-2, -1, 0, 1, 2])
            elif isinstance(d, float):
                trial[k] = d * rng.uniform(0.8, 1.2)
            else:
                continue
            if config_valid(opt, trial):
                base = trial
        for k in sorted(base):
            if k in ("population_size", "max_cycles", "fitness_error", "early_stopping"):
                continue
            v = base[k]
            trial = dict(base)
            if isinstance(v, bool):
                continue
            if isinstance(v, int):
                trial[k] = v + rng.choice([-1, 1])
            elif isinstance(v, float):
                trial[k] = v * rng.uniform(0.8, 1.2)
            elif isinstance(v, list) and all(isinstance(e, (int, float)) for e in v):
                trial[k] = [e * rng.uniform(0.8, 1.2) if isinstance(e, float) else e for e in v]
            else:
                continue
            if config_valid(opt, trial):
                base = trial
    return base, klass


def optional_variants(opt):
    """validator-accepted configurations that set ONE optional parameter (left at its default by the documented
    configuration) to a non-default value: reaches the non-default branches of an algorithm deterministically"""
    base = dict(base_configs()[opt])
    out = []
    fields = env.config_class(opt).model_fields
    for k in sorted(fields):
        if k in base or k in ("early_stopping", "fitness_error"):
            continue
        d = fields[k].default
        if isinstance(d, bool):
            cands = [not d]
        elif isinstance(d, int):
            cands = [d + x for x in (-2, -1, 1, 2, 3)]
        elif isinstance(d, float):
            cands = [d * 0.5, d * 1.5]
        else:
            continue
        for v in cands:
            trial = dict(base)
            trial[k] = v
            if config_valid(opt, trial):
                out.append(trial)
    return out


_ALL_VARIANTS = None


def all_optional_variants():
    global _ALL_VARIANTS
    if _ALL_VARIANTS is None:
        _ALL_VARIANTS = [(o, c) for o in opt_names() for c in optional_variants(o)]
    return _ALL_VARIANTS


# ---------------------------------------------------------------------------------------------------------------
def _bounds(rng, style=None):
    style = style or rng.choice(["sym", "sym", "pos", "neg", "zero_lo", "zero_hi", "asym", "narrow", "huge", "tiny"])
    if style == "sym":
        a = rng.choice([1.0, 5.0, 10.0, 100.0]); return -a, a
    if style == "pos":
        a = rng.uniform(0.5, 50); return a, a + rng.uniform(0.5, 100)
    if style == "neg":
        a = rng.uniform(0.5, 50); return -a - rng.uniform(0.5, 100), -a
    if style == "zero_lo":
        return 0.0, rng.choice([1.0, 5.0, 10.0, 1000.0])
    if style == "zero_hi":
        return -rng.choice([1.0, 5.0, 10.0, 1000.0]), 0.0
    if style == "asym":
        return -rng.uniform(0.1, 3), rng.uniform(5, 500)
    if style == "narrow":
        a = rng.choice([1e3, -1e3, 12.5]); return a, a + 1e-3
    if style == "huge":
        return -1e6, 1e6
    return rng.uniform(1e-3, 2e-3), rng.uniform(3e-3, 5e-3)


def _choices(rng):
    n = rng.randint(2, 7)
    pool = [1, 5, 9, 11, 0.5, 2.5, 7.0, -3, -1.5, 20, 0, 4]
    return rng.sample(pool, n)


def _items(rng):
    n = rng.randint(3, 8)
    pool = ["a", "b", "c", "d", "e", "f", "g", "h", 1, 2, 3, 10, 20, 2.5, 7.5, 0.25]
    return rng.sample(pool, n)


def _vec_obj(rng):
    fam = rng.choice(["sphere", "sphere", "abs", "linear", "rastrigin", "hash", "hash", "plateau", "hinge"])
    p = {}
    r = rng.random()
    if r < 0.2:
        p["offset"] = -rng.choice([3.0, 50.0, 1e4])
    elif r < 0.3:
        p["scale"] = 1e6
    elif r < 0.4:
        p["scale"] = 1e-6
    elif r < 0.45:
        p["scale"] = -1.0
    if fam in ("sphere", "abs", "rastrigin"):
        p["shift"] = rng.choice([0.3, -0.7, 0.0, 0.0, 2.1])
    if fam == "hinge":
        p["tol"] = rng.choice([0.5, 2.0, 30.0])
    return {"fam": fam, "p": p}


TASK_KINDS = ["continuous", "continuous", "continuous", "continuous", "multiobjective", "discrete", "discrete-multi",
              "binary", "mixed", "permutation"]


def make_spec(rng, kind=None, minmax=None, seed=True):
    kind = kind or rng.choice(TASK_KINDS)
    vars_ = []
    weights = None
    if kind == "continuous":
        shape = rng.choice(["singles", "multi", "mix"])
        dim = rng.choice([1, 2, 3, 3, 4, 5, 6])
        if shape == "singles":
            vars_ = [["c", *_bounds(rng)] for _ in range(dim)]
        elif shape == "multi":
            style = rng.choice([None, "sym", "zero_lo", "zero_hi"])
            bs = [_bounds(rng, style) for _ in range(dim)]
            vars_ = [["cm", [b[0] for b in bs], [b[1] for b in bs]]]
        else:
            bs = [_bounds(rng) for _ in range(max(1, dim - 1))]
            vars_ = [["c", *_bounds(rng)], ["cm", [b[0] for b in bs], [b[1] for b in bs]]]
        obj = [_vec_obj(rng)]
    elif kind == "multiobjective":
        dim = rng.choice([1, 2, 3, 4])
        bs = [_bounds(rng) for _ in range(dim)]
        vars_ = [["mo", [b[0] for b in bs], [b[1] for b in bs]]]
        n_obj = rng.choice([2, 2, 3])
        obj = [_vec_obj(rng) for _ in range(n_obj)]
        weights = [rng.choice([0.0, 0.2, 0.5, 1.0, 3.0]) for _ in range(n_obj)]
        if not any(weights):
            weights[0] = 1.0
    elif kind == "discrete":
        vars_ = [["d", _choices(rng)] for _ in range(rng.randint(1, 5))]
        obj = [_vec_obj(rng)]
    elif kind == "discrete-multi":
        vars_ = [["dm", [_choices(rng) for _ in range(rng.choice([1, 2, 3, 4]))]]]
        obj = [_vec_obj(rng)]
    elif kind == "binary":
        vars_ = [["b", rng.randint(1, 8)]]
        obj = [_vec_obj(rng)]
    elif kind == "mixed":
        n = rng.randint(2, 4)
        for _ in range(n):
            t = rng.choice(["c", "d", "b", "cm", "dm"])
            if t == "c":
                vars_.append(["c", *_bounds(rng)])
            elif t == "d":
                vars_.append(["d", _choices(rng)])
            elif t == "b":
                vars_.append(["b", rng.randint(1, 3)])
            elif t == "cm":
                bs = [_bounds(rng) for _ in range(rng.randint(1, 3))]
                vars_.append(["cm", [b[0] for b in bs], [b[1] for b in bs]])
            else:
                vars_.append(["dm", [_choices(rng) for _ in range(rng.randint(1, 3))]])
        obj = [_vec_obj(rng)]
    elif kind == "permutation":
        vars_ = [["p", _items(rng)]]
        obj = [{"fam": rng.choice(PERM_FAMS), "p": {"wseed": rng.randint(1, 99)}}]
        if rng.random() < 0.25:
            obj[0]["p"]["offset"] = -1000.0
    else:
        raise ValueError(kind)
    spec = {"vars": vars_, "obj": obj, "weights": weights,
            "minmax": minmax or rng.choice(["min", "max"]),
            "seed": (rng.choice([0, 1, 42, 2 ** 31 - 1, 2 ** 32 - 1]) if rng.random() < 0.1
                     else rng.randint(0, 2 ** 32 - 1)) if seed else None}
    return spec


def case(i: int) -> dict:
    rng = random.Random(f"{UNIVERSE_VERSION}/{i}")
    opt = rng.choice(opt_names())
    cfg, klass = make_config(rng, opt)
    spec = make_spec(rng)
    return {"i": i, "opt": opt, "cfg": cfg, "cfg_class": klass, "spec": spec, "mode": "serial", "workers": None}


BATTERY_TASKS = [
    {"vars": [["c", 0.0, 1.0]], "obj": [{"fam": "hinge", "p": {"tol": 30.0}}]},                                   # constant 0
    {"vars": [["cm", [-10.0, -10.0, -10.0], [10.0, 10.0, 10.0]]], "obj": [{"fam": "hinge", "p": {"tol": 30.0}}]},  # constant 0
    {"vars": [["c", 0.0, 5.0], ["c", -5.0, 0.0]], "obj": [{"fam": "sphere", "p": {"shift": 0.0}}]},               # optimum on zero bounds
    {"vars": [["cm", [-10.0, -10.0, -10.0], [10.0, 10.0, 10.0]]], "obj": [{"fam": "plateau", "p": {"q": 2.0}}]},   # ties
    {"vars": [["cm", [0.0, 0.0], [1000.0, 1000.0]]], "obj": [{"fam": "abs", "p": {"shift": 0.0}}]},                # optimum on zero bounds
    {"vars": [["cm", [-5.0, -5.0, -5.0, -5.0], [5.0, 5.0, 5.0, 5.0]]], "obj": [{"fam": "hinge", "p": {"tol": 0.5}}]},  # zero region inside
    {"vars": [["c", -1.0, 0.0]], "obj": [{"fam": "hinge", "p": {"tol": 30.0, "offset": -7.0}}]},                  # constant negative
    {"vars": [["cm", [-10.0] * 12, [10.0] * 12]], "obj": [{"fam": "rastrigin", "p": {"shift": 0.2}}]},            # 12 dimensions
    {"vars": [["cm", [0.0] * 30, [10.0] * 30]], "obj": [{"fam": "sphere", "p": {"shift": 0.0}}]},                 # 30 dimensions, zero bounds
    {"vars": [["cm", [-5.0, -5.0], [5.0, 5.0]]], "obj": [{"fam": "sphere", "p": {"shift": 0.3}}], "cycles": 40},  # long run (convergence)
    {"vars": [["cm", [-10.0, -10.0], [10.0, 10.0]]], "obj": [{"fam": "plateau", "p": {"q": 5.0}}], "cycles": 20},     # 0..4: coarse plateau
    {"vars": [["b", 4]], "obj": [{"fam": "abs", "p": {"shift": 0.0}}], "cycles": 13},                             # 16 points, integer costs
    {"vars": [["d", [0, 1, 2]], ["d", [0, 1, 2]]], "obj": [{"fam": "abs", "p": {"shift": 1.0}}], "cycles": 13},   # 9 points, ties
]


def battery():
    """pinned pathological battery: every optimizer x degenerate continuous tasks (constant objective, exact zeros, ties,
    optima on zero bounds) x min/max; deterministic (seeded, serial), audited like the universe (audit/battery_v2.json)"""
    out = []
    for a, opt in enumerate(opt_names()):
        base = dict(base_configs()[opt])
        base["fitness_error"] = None
        for t, task in enumerate(BATTERY_TASKS):
            for d, minmax in enumerate(("min", "max")):
                cfg = dict(base, max_cycles=task.get("cycles") or (5, 13)[(t + d) % 2])
                spec = {"vars": task["vars"], "obj": task["obj"], "weights": None, "minmax": minmax, "seed": 1000 * a + 10 * t + d}
                out.append({"i": f"b{len(out)}", "opt": opt, "cfg": cfg, "cfg_class": "battery", "spec": spec, "mode": "serial",
                            "workers": None})
    return out


def boundary_variants(opt, with_kind=False):
    """validator-accepted configurations with ONE parameter at (or near) the edge of what the config model accepts, or
    with a two-element range given in reversed order.  The real config model is the validity oracle."""
    base = dict(base_configs()[opt])
    fields = env.config_class(opt).model_fields
    out = []
    seen = set()

    def add(k, v, kind="edge"):
        trial = dict(base)
        trial[k] = v
        key = json.dumps([k, v], sort_keys=True, default=str)
        if key not in seen and trial != base and config_valid(opt, trial):
            seen.add(key)
            out.append((k, trial) if not with_kind else (k, trial, kind))
            return True
        return False

    for k in sorted(fields):
        if k in ("population_size", "max_cycles", "fitness_error", "early_stopping"):
            continue
        v = base.get(k, fields[k].default)
        if isinstance(v, bool) or v is None:
            continue
        if isinstance(v, int):
            for c in (0, 1, 2, v // 2):                      # smallest accepted value
                if add(k, c):
                    break
            for c in (v * 4, v * 3, v * 2, v + 5, v + 2):    # a large accepted value
                if add(k, c):
                    break
            add(k, v + 1, "interior")
            add(k, v - 1, "interior")
            for c in (v // 5, v // 12, v // 20):             # a ladder between the smallest accepted and the documented value
                if c >= 2:
                    add(k, c, "interior")
        elif isinstance(v, float):
            for c in (0.0, 1e-9, v / 10.0, v / 2.0):
                if add(k, c):
                    break
            for c in (v * 10.0, v * 2.0, 1.0, 0.999):
                if add(k, c):
                    break
            for c in (v * 12.5, v * 3.0, v * 0.3):           # values inside the accepted range, away from the documented one
                add(k, c, "interior")
        elif isinstance(v, list) and len(v) == 2 and all(isinstance(e, (int, float)) for e in v):
            for c in ([v[1], v[0]], [v[1], v[1] / 2.0], [v[1] * 2.0, v[1]], [abs(v[0]) + abs(v[1]), abs(v[1]) / 2.0]):
                if c[0] > c[1] and add(k, c):                # a range given in descending order
                    break
            add(k, [v[0], v[0]])                             # degenerate range
            for c in ([v[0] * 0.6, v[1]], [v[0] * 1.4, v[1]], [v[0], v[1] * 0.7], [v[0], v[1] * 1.3]):
                add(k, c, "interior")                        # each end moved inside what the validator accepts
    return out


_BOUNDARY = None


def boundary_battery():
    """pinned battery over the boundary configurations: deterministic (seeded, serial), audited (audit/boundary_v2.json)"""
    global _BOUNDARY
    if _BOUNDARY is not None:
        return _BOUNDARY
    out = []
    tasks_ = [
        {"vars": [["cm", [-10.0, -10.0, -10.0], [10.0, 10.0, 10.0]]], "obj": [{"fam": "rastrigin", "p": {"shift": 0.2}}], "minmax": "min"},
        {"vars": [["c", 0.0, 5.0], ["c", -100.0, 100.0]], "obj": [{"fam": "sphere", "p": {"shift": 0.3}}], "minmax": "max"},
        {"vars": [["cm", [-5.0, -5.0, -5.0, -5.0, -5.0], [5.0, 5.0, 5.0, 5.0, 5.0]]], "obj": [{"fam": "sphere", "p": {"shift": 0.3}}], "minmax": "min"},
        {"vars": [["c", -3.0, 7.0]], "obj": [{"fam": "abs", "p": {"shift": 0.3}}], "minmax": "min"},
    ]
    for rep in range(4):          # rep 0: used by every campaign check; reps 1-3 (other seeds, longer): C10 and C17 only
        for a, opt in enumerate(opt_names()):
            for b, (k, cfg, vkind) in enumerate(boundary_variants(opt, with_kind=True)):
                if rep > 0 and vkind == "interior":
                    continue
                for t, task in enumerate(tasks_):
                    cfg2 = dict(cfg, fitness_error=None, max_cycles=6 if rep == 0 else 10)
                    if not config_valid(opt, cfg2):
                        continue
                    spec = {"vars": task["vars"], "obj": task["obj"], "weights": None, "minmax": task["minmax"],
                            "seed": 70000 + 100 * a + 10 * b + t + 1000000 * rep}
                    out.append({"i": f"v{len(out)}", "opt": opt, "cfg": cfg2, "cfg_class": "boundary:" + k, "spec": spec,
                                "mode": "serial", "workers": None, "rep": rep})
    _BOUNDARY = out
    return out


def boundary_indices(all_reps=False):
    return [k for k, c in enumerate(boundary_battery()) if all_reps or c["rep"] == 0]


_SMALL = None


def small_population_battery():
    """populations far below the documented scale (valid configurations all the same): whole-population ties become likely.
    Used by the result-level checks only (C01 C02 C03 C10 C15 C17); failures of algorithms that cannot run with so few agents
    are not judged anywhere (C05/C06 do not use this battery)."""
    global _SMALL
    if _SMALL is not None:
        return _SMALL
    out = []
    tasks_ = [
        {"vars": [["cm", [-10.0, -10.0], [10.0, 10.0]]], "obj": [{"fam": "plateau", "p": {"q": 5.0}}], "minmax": "min"},
        {"vars": [["cm", [-10.0, -10.0], [10.0, 10.0]]], "obj": [{"fam": "plateau", "p": {"q": 5.0}}], "minmax": "max"},
        {"vars": [["cm", [-10.0, -10.0, -10.0], [10.0, 10.0, 10.0]]], "obj": [{"fam": "sphere", "p": {"shift": 0.0}}], "minmax": "min"},
    ]
    for a, opt in enumerate(opt_names()):
        base = dict(base_configs()[opt])
        base["fitness_error"] = None
        sizes = []
        for p_ in (4, 5, 6, 8, 3):
            if len(sizes) < 2 and config_valid(opt, dict(base, population_size=p_, max_cycles=40)):
                sizes.append(p_)
        for p_ in sizes:
            for t, task in enumerate(tasks_):
                for sd in range(2):
                    spec = {"vars": task["vars"], "obj": task["obj"], "weights": None, "minmax": task["minmax"],
                            "seed": 900000 + 1000 * a + 100 * p_ + 10 * t + sd}
                    out.append({"i": f"s{len(out)}", "opt": opt, "cfg": dict(base, population_size=p_, max_cycles=40),
                                "cfg_class": "small-population", "spec": spec, "mode": "serial", "workers": None})
    _SMALL = out
    return out


_TYPES = None


def types_battery():
    """variety of user-supplied objects: objective values handed back as numpy scalars / Python ints / float32, huge and tiny
    values, integer-typed / very wide / extremely narrow bounds, string / tuple / None / duplicated choices, mixed-type permutation
    items, 40 dimensions, a single variable.  Result-level checks only (like the small-population battery)."""
    global _TYPES
    if _TYPES is not None:
        return _TYPES
    tasks_ = [
        {"vars": [["cm", [-10, -10, -10], [10, 10, 10]]], "obj": [{"fam": "sphere", "p": {"shift": 0.3}}], "ret": "np64"},           # int-typed bounds
        {"vars": [["cm", [-5.0, -5.0], [5.0, 5.0]]], "obj": [{"fam": "rastrigin", "p": {"shift": 0.2}}], "ret": "np32"},
        {"vars": [["cm", [-20.0, -20.0, -20.0], [20.0, 20.0, 20.0]]], "obj": [{"fam": "abs", "p": {"shift": 0.3}}], "ret": "int"},     # integer costs
        {"vars": [["c", -1e12, 1e12], ["c", 0.0, 1e12]], "obj": [{"fam": "sphere", "p": {"shift": 0.3, "scale": 1e-9}}], "ret": "np64"},  # very wide
        {"vars": [["c", 1.0, 1.0 + 1e-12], ["c", -3.0, 3.0]], "obj": [{"fam": "sphere", "p": {"shift": 0.3}}]},                          # extremely narrow
        {"vars": [["cm", [-3.0] * 40, [3.0] * 40]], "obj": [{"fam": "sphere", "p": {"shift": 0.01}}], "ret": "np64"},                  # 40 dimensions
        {"vars": [["c", -2.0, 9.0]], "obj": [{"fam": "sphere", "p": {"shift": 0.3, "scale": 1e300}}]},                                # huge values
        {"vars": [["cm", [-2.0, -2.0], [2.0, 2.0]]], "obj": [{"fam": "sphere", "p": {"shift": 0.3, "scale": 1e-300}}]},               # tiny values
        {"vars": [["d", ["red", "green", "blue", "green"]], ["d", [["a"], ("b", 1), None]], ["c", -1.0, 1.0]], "obj": [{"fam": "abs", "p": {"shift": 0.5}}]},
        {"vars": [["p", ["x", 3, 2.5, "y", 7]]], "obj": [{"fam": "assign", "p": {"wseed": 5}}], "ret": "np64"},
        {"vars": [["cm", [-4.0, -4.0, -4.0], [4.0, 4.0, 4.0]]], "obj": [{"fam": "sphere", "p": {"shift": 0.3, "offset": -50.0}}], "ret": "int"},  # all negative
        {"vars": [["cm", [-6.0, -6.0], [6.0, 6.0]]], "obj": [{"fam": "sphere", "p": {"shift": 0.3}}], "mutate": True},                 # objective edits its argument
        {"vars": [["d", [3, 5, 7, 11]], ["c", -2.0, 2.0], ["b", 2]], "obj": [{"fam": "abs", "p": {"shift": 0.5}}], "mutate": True},
        {"vars": [["b", 40]], "obj": [{"fam": "abs", "p": {"shift": 0.0}}]},                                                           # 40 binary coordinates
        {"vars": [["dm", [[0, 1, 2]] * 36]], "obj": [{"fam": "abs", "p": {"shift": 1.0}}]},                                            # 36 discrete children
        {"vars": [["cs", 0.0, 10.0, 0.25], ["cs", -1.0, 1.0, 0.125], ["cs", 5.0, 6.0, 0.5]], "obj": [{"fam": "sphere", "p": {"shift": 0.3}}]},  # user subclass
        {"vars": [["cm", [-3.0, -3.0, -3.0], [3.0, 3.0, 3.0]]], "obj": [{"fam": "sphere", "p": {"shift": 0.3}}], "ret": "np0d", "force": "min"},  # 0-d array
        {"vars": [["d", [3, 5, 7, 11, 13]], ["d", [0.5, 1.5, 2.5, 3.5]]], "obj": [{"fam": "abs", "p": {"shift": 0.5}}], "ret": "np0d_memo", "force": "max"},   # memoised pay-off table
        {"vars": [["cm", [-3.0, -3.0], [3.0, 3.0]]], "obj": [{"fam": "sphere", "p": {"shift": 0.3}}], "ret": "np0d_memo", "force": "max"},  # corners come back
        {"vars": [["cm", [1.0, 1.0, 1.0, 1.0], [1.0 + 1e-12] * 4]], "obj": [{"fam": "sphere", "p": {"shift": 0.3}}]},                   # all bounds 1e-12 wide
        {"vars": [["cm", [-10.0, -10.0, -10.0], [10.0, 10.0, 10.0]]], "obj": [{"fam": "linear", "p": {"scale": 300.0, "offset": -2000.0}}]},   # mixed sign, large negative
    ]
    out = []
    for a, opt in enumerate(opt_names()):
        base = dict(base_configs()[opt])
        for t, task in enumerate(tasks_):
            minmax = task.get("force") or ("min", "max")[(a + t) % 2]
            cfg = dict(base, fitness_error=(None, 0.5)[t % 2], max_cycles=(6, 12)[t % 2])
            spec = {"vars": task["vars"], "obj": task["obj"], "weights": None, "minmax": minmax, "seed": 4000000 + 100 * a + t}
            if task.get("ret"):
                spec["ret"] = task["ret"]
            if task.get("mutate"):
                spec["mutate"] = True
            out.append({"i": f"y{len(out)}", "opt": opt, "cfg": cfg, "cfg_class": "types", "spec": spec, "mode": "serial", "workers": None})
    _TYPES = out
    return out


def battery_inf():
    """objectives with non-finite values (death penalty: +inf for min tasks, -inf for max tasks outside a feasible box).
    Used by C02 only: cost/fitness truth must also hold for infinite objective values.  Not part of the universe because
    infinite costs drive many update rules into inf-inf arithmetic, which is the business of C05/C06, not of C02."""
    out = []
    for a, opt in enumerate(opt_names()):
        base = dict(base_configs()[opt])
        base["fitness_error"] = None
        for d, minmax in enumerate(("min", "max")):
            obj = {"fam": "penalty", "p": {"thr": 6.0, **({"scale": -1.0} if minmax == "max" else {})}}
            spec = {"vars": [["cm", [-10.0, -10.0, -10.0], [10.0, 10.0, 10.0]]], "obj": [obj], "weights": None,
                    "minmax": minmax, "seed": 5000 + 10 * a + d}
            out.append({"i": f"n{len(out)}", "opt": opt, "cfg": dict(base, max_cycles=6), "cfg_class": "battery-inf", "spec": spec,
                        "mode": "serial", "workers": None})
    # infinitely GOOD values (-inf on a min task, +inf on a max task) on a target box that random points hit often
    for a, opt in enumerate(opt_names()):
        base = dict(base_configs()[opt])
        base["fitness_error"] = None
        for d, minmax in enumerate(("min", "max")):
            obj = {"fam": "jackpot", "p": {"thr": 2.5, "shift": 1.0, **({"scale": -1.0} if minmax == "max" else {})}}
            spec = {"vars": [["cm", [-10.0, -10.0], [10.0, 10.0]]], "obj": [obj], "weights": None,
                    "minmax": minmax, "seed": 6000 + 10 * a + d}
            out.append({"i": f"n{len(out)}", "opt": opt, "cfg": dict(base, max_cycles=6), "cfg_class": "battery-inf", "spec": spec,
                        "mode": "serial", "workers": None})
    return out


EXT_SIZE = 60000


def case_ext(i: int) -> dict:
    """extended population sizes (odd, non-multiples of group counts): judged by C10 only"""
    rng = random.Random(f"{UNIVERSE_VERSION}/ext/{i}")
    opt = rng.choice(opt_names())
    cfg, klass = make_config(rng, opt)
    base = base_configs()[opt]["population_size"]
    for _ in range(6):
        trial = dict(cfg)
        trial["population_size"] = rng.choice([base + 1, base + 3, base + 5, base + 7, base * 2 - 1, int(base * 1.5) + 1,
                                               base * 3 + 1, base + rng.randint(1, 25)])
        if config_valid(opt, trial):
            cfg = trial
            break
    spec = make_spec(rng, kind=rng.choice(["continuous", "continuous", "mixed", "multiobjective", "discrete", "binary"]))
    return {"i": f"e{i}", "opt": opt, "cfg": cfg, "cfg_class": "ext-" + klass, "spec": spec, "mode": "serial", "workers": None}


def sample_indices(seed: int, n: int, tag: str = "") -> list:
    """n distinct universe indices chosen by VERIF_SEED (and a per-check tag)"""
    rng = random.Random(f"{UNIVERSE_VERSION}/sample/{tag}/{seed}")
    n = min(n, UNIVERSE_SIZE)
    return rng.sample(range(UNIVERSE_SIZE), n)
