"""pvmon - runtime monitors for pyvolutionary (see /verif/DESIGN.md)."""
