"""Verdict discipline, known-findings matching, replay and evidence files (DESIGN 1.3, 1.4, 3)."""
import json
import os
import sys
import time
import hashlib

from . import env

KF_PATH = os.path.join(env.VERIF, "known_findings.json")
EVIDENCE_DIR = os.environ.get("PVMON_EVIDENCE_DIR") or os.path.join(env.VERIF, "evidence")
REPLAY_DIR = os.environ.get("PVMON_REPLAY_DIR") or os.path.join(env.VERIF, "replays")

_KF = None


def known_findings():
    global _KF
    if _KF is None:
        try:
            _KF = json.load(open(KF_PATH))["findings"]
        except FileNotFoundError:
            _KF = []
    return _KF


def match_known(prop, key):
    """a violation matches a `known` entry when every field of the entry's key equals the violation's field
    (entries are keyed by mechanism - never by seed, hash or random value); `fixed` entries suppress nothing"""
    for ent in known_findings():
        if ent.get("status") != "known" or ent.get("property") != prop:
            continue
        if all(key.get(k) == v for k, v in ent["key"].items()):
            if ent.get("sites") and key.get("site") and key["site"] not in ent["sites"] and _sites_still_defined(key.get("file"), ent["sites"]):
                # same optimizer, exception type and module, but raised in ANOTHER function than the recorded finding while
                # the recorded function(s) still exist: a different failure, not the known one
                continue
            return ent
    return None


_DEF_CACHE = {}


def _sites_still_defined(file, sites):
    """True when every recorded raise site is still a function defined in a repository module of that name (so an unknown
    site cannot be a mere rename of a recorded one).  Comprehension / lambda frames never count as definitions."""
    if not file:
        return False
    if file not in _DEF_CACHE:
        names = set()
        root = os.path.join(env.REPO, "pyvolutionary")
        for dp, _dn, fn in os.walk(root):
            if file in fn:
                try:
                    import re as _re
                    names.update(_re.findall(r"^\s*def\s+([A-Za-z_][A-Za-z0-9_]*)\s*\(", open(os.path.join(dp, file)).read(), _re.M))
                except OSError:
                    pass
        _DEF_CACHE[file] = names
    return all(s_ in _DEF_CACHE[file] for s_ in sites)


class Report:
    def __init__(self, prop, tier, seed):
        self.prop = prop
        self.tier = tier
        self.seed = seed
        self.t0 = time.time()
        self.evaluations = 0
        self.distinct = set()
        self.samples = []
        self.rule = ""
        self.extra = {}
        self.assumptions = []
        self.violations = []       # {"key":{}, "detail": str, "replay": {...}}
        self.inconclusive = []     # reasons
        self.minimums = []         # (name, value, minimum)
        self.exhaustive = None
        self.lost = 0

    def violation(self, key, detail, replay=None):
        self.violations.append({"key": key, "detail": detail, "replay": replay or {}})

    def require(self, name, value, minimum):
        self.minimums.append((name, value, minimum))
        if value < minimum:
            self.inconclusive.append(f"{name}={value} < {minimum}")

    def sample(self, s):
        if len(self.samples) < 5:
            self.samples.append(s)

    # -----------------------------------------------------------------------------------------------------------
    def finish(self):
        prop = self.prop
        known_hits = {}
        unlisted = []
        for v in self.violations:
            ent = match_known(prop, v["key"])
            if ent is not None:
                kid = json.dumps(ent["key"], sort_keys=True)
                known_hits.setdefault(kid, [ent, 0])[1] += 1
            else:
                unlisted.append(v)
        lines = []
        for kid, (ent, n) in sorted(known_hits.items()):
            lines.append(f"KNOWN-FINDING: property={prop} {ent['what']} [key {kid}; met {n}x in this run]")
        replay_paths = []
        if unlisted:
            os.makedirs(os.path.join(REPLAY_DIR, prop), exist_ok=True)
            seen = set()
            for v in unlisted:
                kid = json.dumps(v["key"], sort_keys=True)
                if kid in seen:
                    continue
                seen.add(kid)
                h = hashlib.sha1((kid + v["detail"]).encode()).hexdigest()[:10]
                path = os.path.join(REPLAY_DIR, prop, f"{prop}-{h}.json")
                with open(path, "w") as f:
                    json.dump({"property": prop, "key": v["key"], "observation": v["detail"],
                               "replay": v["replay"], "repo_head": env.repo_head(), "tier": self.tier,
                               "seed": self.seed}, f, indent=1, default=repr)
                replay_paths.append((path, v))
        wall = time.time() - self.t0
        verdict = "held"
        if unlisted:
            verdict = "violated"
        elif self.inconclusive:
            verdict = "inconclusive"
        coverage = {
            "evaluations": int(self.evaluations),
            "distinct_nontrivial": int(len(self.distinct)),
            "rule": self.rule,
            "samples": self.samples or [{"note": "no sample recorded"}],
            "verdict": verdict,
            "known_findings_met": [json.loads(k) for k in sorted(known_hits)],
            "unlisted_violation_keys": [v["key"] for _, v in replay_paths],
            "inconclusive_reasons": self.inconclusive,
            "lost_cases": self.lost,
            "minimums": [{"name": n, "value": v, "minimum": m} for n, v, m in self.minimums],
            "repo_head": env.repo_head(),
        }
        if self.exhaustive is not None:
            coverage["exhaustive"] = bool(self.exhaustive)
        coverage.update(self.extra)
        ev = {"property_id": prop, "tier": self.tier, "seed": int(self.seed), "level": "exploration",
              "coverage": coverage, "assumptions": self.assumptions, "wall_s": round(wall, 2),
              "violations": len(unlisted)}
        os.makedirs(EVIDENCE_DIR, exist_ok=True)
        tmp = os.path.join(EVIDENCE_DIR, f".{prop}.json.tmp")
        with open(tmp, "w") as f:
            json.dump(ev, f, indent=1, default=repr)
        os.replace(tmp, os.path.join(EVIDENCE_DIR, f"{prop}.json"))
        for ln in lines:
            print(ln)
        print(f"[{prop}] tier={self.tier} seed={self.seed} evaluations={self.evaluations} "
              f"distinct_nontrivial={len(self.distinct)} wall={wall:.1f}s verdict={verdict}")
        for n, v, m in self.minimums:
            print(f"[{prop}]   observed {n}={v} (minimum {m})")
        if unlisted:
            for path, v in replay_paths:
                print(f"[{prop}]   {json.dumps(v['key'], sort_keys=True)}: {v['detail'][:300]}")
                print(f"VIOLATION property={prop} replay={path}")
            return 1
        if self.inconclusive:
            print(f"INCONCLUSIVE property={prop} reason={'; '.join(self.inconclusive)}")
            return 2
        return 0
