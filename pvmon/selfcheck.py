"""MANIFEST.setup_cmd: nothing is built or installed; verify that the framework can run from files on disk."""
import json
import os
import random
import sys


def main():
    from pvmon import env, universe, tasks, hooks, report
    classes = env.optimizer_classes()
    assert len(classes) == 84, f"expected 84 exported optimizers, found {len(classes)}"
    for n in classes:
        assert universe.config_valid(n, universe.base_configs()[n]), f"base configuration of {n} rejected"
    tasks.selftest_objectives(random.Random(1))
    hooks.install()
    kf = report.known_findings()
    for e in kf:
        assert e["status"] in ("known", "fixed") and "property" in e and "what" in e, e
    c = universe.case(0)
    assert c == universe.case(0)
    print(f"pvmon selfcheck ok: repo={env.REPO} head={env.repo_head()} optimizers={len(classes)} "
          f"known_findings={sum(e['status'] == 'known' for e in kf)} fixed={sum(e['status'] == 'fixed' for e in kf)} "
          f"universe={universe.UNIVERSE_VERSION}/{universe.UNIVERSE_SIZE}")


if __name__ == "__main__":
    sys.exit(main())
