"""writes MANIFEST.json (run by hand when the set of checks changes)"""
import json
import os

V = os.path.dirname(os.path.dirname(os.path.abspath(__file__)))
TECH = {
 "C01": "runtime monitor: membership oracle (harness spec) over every reported agent of generated runs of all 84 optimizers, 3 modes",
 "C02": "runtime monitor: cost/fitness recomputed by an independent pure objective on every reported agent; decoding differential; re-used instances",
 "C03": "runtime monitor: best_solution vs last generation (membership + no strictly better agent) on generated runs",
 "C04": "history + executable reference model: scripted rate histories through the real optimize(); step counter hook on all optimizers",
 "C05": "runtime monitor: instrumented objective records every argument (in-process and O_APPEND log from pool worker processes); membership oracle",
 "C06": "runtime monitor: outcome/exception-key oracle over generated valid runs (known-findings by mechanism, audited baseline for integer encodings) + generated invalid calls with step-counter hook",
 "C07": "relational runtime monitor: seeded run A (after RNG perturbation) vs A' vs B in another process/hash seed; unseeded-RNG call hooks",
 "C08": "history monitor: used-vs-fresh instance result comparison over call histories (completed, aborted mid-run, re-configured) + stale-state read hook (__getattribute__/__setattr__ on the optimizer)",
 "C09": "invariant at a hook: canonical dumps of config and task before/after optimize() incl. exception path, shared-config sequences",
 "C10": "runtime monitor: generation sizes of every recorded generation on generated runs, 3 modes, worker counts 1-16",
 "C11": "schedule-perturbed thread/process runs (seeded delays, sys.monitoring line-level yields in pool threads, 1-16 workers): pool hooks (futures submitted/gathered, completion orders at the executor), exactly-once matching of agents to evaluations, pooled-greedy reference model, distinctness of initial points",
 "C12": "relational runtime monitor: run(max,f) vs run(min,-f) agent by agent, exact negation",
 "C13": "runtime contracts (domain laws) evaluated on the real variable classes over enumerated + random inputs",
 "C14": "runtime contracts (task consistency laws) on the real Task over all variable lists of length <= 3 + random ones",
 "C15": "invariant at a hook: deep per-cycle snapshots vs returned history; trend utilities vs direct ranking",
 "C16": "reference-model monitor over object identities for the real selection helpers; exhaustive small populations",
 "C17": "runtime monitor: best cost monotone between consecutive generations for the structurally elitist optimizers",
 "C18": "differential runtime monitor: set_config_parameters vs the real config model; run equivalence + stale-read hook",
 "C19": "history monitor: scripted optimizer logs every optimize() call of HyperTuner's pools; exactly-once per grid point and trial; optimality of best_parameters; ParameterGrid laws",
 "C20": "history monitor: scripted optimizers log (algorithm, task, mode, workers) per call of Multitask's pools; exactly n_trials per pair, designated mode (also observed where the objective is evaluated: pid / thread); file-system layout of exports",
}
NOTE = ("Trusted: CPython, numpy, pydantic, pandas; the harness's own task spec / pure objectives / reference models (unit-"
        "tested by pvmon.selfcheck); known_findings.json (mechanism-keyed, committed). Says nothing about inputs outside the "
        "generated classes; 'for all' quantifiers are sampled from the audited universe and property-specific enumerations.")


def main():
    props = [json.loads(l) for l in open(os.path.join(V, "properties.jsonl"))]
    checks = []
    for p in props:
        pid = p["id"]
        checks.append({
            "property_id": pid,
            "quick_cmd": f"bin/check {pid} --tier quick",
            "thorough_cmd": f"bin/check {pid} --tier thorough",
            "evidence_file": f"evidence/{pid}.json",
            "replay_cmd_template": f"bin/check {pid} --replay {{path}}",
            "engine": "pvmon",
            "level_claimed": {"category": "exploration",
                              "text": "The property held on every execution of the real code that the monitors observed in this run "
                                      "(counts in the evidence file); violated = witness + replay file; nothing is claimed beyond the "
                                      "executions observed. Bounded enumerations (C04, C13, C14, C16, C19, C20) are exhaustive only for "
                                      "the part named in the evidence.",
                              "design_ref": f"DESIGN.md section 2 / {pid}"},
            "level_note": NOTE,
            "technique": TECH[pid],
        })
    m = {
        "version": 1,
        "setup_cmd": "PYTHONPATH=/verif /venv/bin/python -m pvmon.selfcheck",
        "hooks": {"guard": "PYVOLUTIONARY_VERIF",
                  "enable": "no source hooks in /repo: all instrumentation is applied by the harness (pvmon/hooks.py) by wrapping class "
                            "attributes and module globals of the imported repository at run time; checks import /repo's working tree directly",
                  "baseline_off_cmd": "cd /repo && /venv/bin/python -m pytest -ra -q -p no:cacheprovider --timeout=900 --continue-on-collection-errors",
                  "source_commits": [], "add_only": True},
        "engines": [{"name": "pvmon", "path": "pvmon/", "serves_properties": [p["id"] for p in props],
                     "kind_free_text": "runtime monitors (hooks + oracles + reference models) over generated, hostile and stress workloads of the real library"}],
        "checks": checks,
        "not_applicable": [],
        "notes": "exit 0 held / exit 1 + VIOLATION line / exit 2 + INCONCLUSIVE line (monitor not reached, too few events, watchdog). "
                 "VERIF_SEED selects the universe sample and all random choices. Compiler sanitizers / valgrind / TSan do not apply: the "
                 "repository is pure Python (see DESIGN.md section 0).",
    }
    json.dump(m, open(os.path.join(V, "MANIFEST.json"), "w"), indent=1)


if __name__ == "__main__":
    main()
