"""helpers for the relational checks (C07, C08, C12, C18): plain runs of the real optimize() and canonical results"""
import contextlib
import io
import json
import signal

from . import env, hooks, tasks
from .run import CaseTimeout, _on_alarm, exception_key, canon


def optimize_plain(opt, task, mode="serial", workers=None, cpu_budget=120.0, mon=None):
    """-> ("ok", result) | ("exc", {"exc","func","msg"}) | ("timeout", None)"""
    old = signal.signal(signal.SIGVTALRM, _on_alarm)
    signal.setitimer(signal.ITIMER_VIRTUAL, cpu_budget)
    hooks.CUR.mon = mon
    try:
        with contextlib.redirect_stdout(io.StringIO()):
            kw = {}
            if mode is not None:
                kw["mode"] = mode
            if workers is not None:
                kw["workers"] = workers
            r = opt.optimize(task, **kw)
        return "ok", r
    except CaseTimeout:
        return "timeout", None
    except Exception as e:
        key, chain = exception_key(e)
        return "exc", {**key, "msg": str(e)[:200]}
    finally:
        signal.setitimer(signal.ITIMER_VIRTUAL, 0)
        signal.signal(signal.SIGVTALRM, old)
        hooks.CUR.mon = None


def result_canon(result):
    """every position, cost, fitness of every generation, the rates and best_solution, as canonical JSON-able data"""
    return {
        "generations": [[[canon(a.position), canon(a.cost), canon(a.fitness)] for a in g.agents] for g in result.evolution],
        "rates": canon(list(result.rates)),
        "best": [canon(result.best_solution.position), canon(result.best_solution.cost), canon(result.best_solution.fitness)]
        if result.best_solution is not None else None,
    }


def dumps(x):
    return json.dumps(x, sort_keys=True)


def first_difference(a, b):
    """human-readable location of the first difference between two canonical results"""
    if len(a["generations"]) != len(b["generations"]):
        return f"{len(a['generations'])} generations vs {len(b['generations'])}"
    for g, (ga, gb) in enumerate(zip(a["generations"], b["generations"])):
        if len(ga) != len(gb):
            return f"generation {g}: {len(ga)} agents vs {len(gb)}"
        for j, (x, y) in enumerate(zip(ga, gb)):
            if dumps(x) != dumps(y):
                return f"generation {g} agent {j}: {dumps(x)[:150]} vs {dumps(y)[:150]}"
    if dumps(a["rates"]) != dumps(b["rates"]):
        return f"rates {dumps(a['rates'])[:120]} vs {dumps(b['rates'])[:120]}"
    if dumps(a["best"]) != dumps(b["best"]):
        return f"best_solution {dumps(a['best'])[:120]} vs {dumps(b['best'])[:120]}"
    return None


def outcome_canon(status, payload):
    if status == "ok":
        return {"status": "ok", "result": result_canon(payload)}
    if status == "exc":
        return {"status": "exc", "exc": payload["exc"], "func": payload["func"]}
    return {"status": status}


def outcome_difference(a, b):
    if a["status"] != b["status"]:
        return f"outcome {a['status']} ({a.get('exc', '')} {a.get('func', '')}) vs {b['status']} ({b.get('exc', '')} {b.get('func', '')})"
    if a["status"] == "ok":
        return first_difference(a["result"], b["result"])
    if a["status"] == "exc" and (a["exc"], a["func"]) != (b["exc"], b["func"]):
        return f"exception {a['exc']} in {a['func']} vs {b['exc']} in {b['func']}"
    return None
