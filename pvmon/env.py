"""Import pyvolutionary from $PVMON_REPO (default /repo) and make sure that is really where it came from."""
import os
import sys
import warnings

sys.dont_write_bytecode = True
os.environ.setdefault("PYTHONDONTWRITEBYTECODE", "1")
os.environ.setdefault("PYVOLUTIONARY_VERIF", "1")   # harness-side guard (no source hooks exist in /repo)
for _v in ("OMP_NUM_THREADS", "OPENBLAS_NUM_THREADS", "MKL_NUM_THREADS"):
    os.environ.setdefault(_v, "1")

VERIF = os.path.dirname(os.path.dirname(os.path.abspath(__file__)))
REPO = os.path.realpath(os.environ.get("PVMON_REPO", "/repo"))
if REPO not in sys.path:
    sys.path.insert(0, REPO)
warnings.filterwarnings("ignore")

import numpy as np  # noqa: E402
np.seterr(all="ignore")
import pyvolutionary as pv  # noqa: E402

_pv_file = os.path.realpath(pv.__file__)
if not _pv_file.startswith(REPO + os.sep):
    raise ImportError(f"pyvolutionary imported from {_pv_file}, expected under {REPO}")

from pyvolutionary.abstract import OptimizationAbstract  # noqa: E402


def optimizer_classes() -> dict:
    """The exported optimizer classes, discovered at run time."""
    out = {}
    for name, obj in vars(pv).items():
        if isinstance(obj, type) and issubclass(obj, OptimizationAbstract) and obj is not OptimizationAbstract:
            out[name] = obj
    return dict(sorted(out.items()))


def config_class(opt_name: str):
    return getattr(pv, opt_name + "Config")


def repo_head() -> str:
    import subprocess
    try:
        return subprocess.run(["git", "-C", REPO, "rev-parse", "--short", "HEAD"], capture_output=True, text=True,
                              timeout=20).stdout.strip()
    except Exception:
        return "unknown"
