"""Run one case of the real library under the monitors and apply the single-run oracles (DESIGN 2: campaign
pipeline).  Everything here runs inside a worker process; the observation record returned is plain JSON."""
import contextlib
import io
import json
import math
import os
import signal
import sys
import tempfile
import traceback

import numpy as np

from . import env, hooks, tasks
from .tasks import member, reason_kind, flat_vars, reported_cost, fitness_of

pv = env.pv

VARIABLE_SIZE = {"BeeColonyOptimization", "ForestOptimizationAlgorithm", "ImperialistCompetitiveOptimization"}

# C17: optimizers whose replacement scheme is NOT purely greedy/elitist (DESIGN C17), with the structural reason
NON_ELITIST = {
    "BacterialForagingOptimization": "elimination-dispersal re-draws agents",
    "BattleRoyaleOptimization": "unconditional respawn of the damaged neighbour",
    "BeeColonyOptimization": "scout bees reset exhausted food sources",
    "ChernobylDisasterOptimization": "no selection at all",
    "CoralReefOptimization": "unoccupied reef slots are overwritten, depredation removes corals",
    "CoronavirusHerdImmunityOptimization": "aged cases are re-drawn",
    "CoyotesOptimization": "the oldest coyote is replaced by the pup",
    "DwarfMongooseOptimization": "baby-sitter exchange resets agents",
    "EarthwormsOptimization": "elites are taken after the move",
    "FireflySwarmOptimization": "fireflies always move",
    "FireHawkOptimization": "population replaced by the new one",
    "FishSchoolSearchOptimization": "collective movements are unconditional",
    "GeneticAlgorithmOptimization": "offspring replace parents",
    "ImperialistCompetitiveOptimization": "reports empire totals",
    "ParticleSwarmOptimization": "particles always move",
    "WaterCycleOptimization": "evaporation / raining re-draws streams",
}


class CaseTimeout(Exception):
    pass


def _on_alarm(signum, frame):
    raise CaseTimeout()


def feq(a, b):
    """bit-for-bit float equality with NaN == NaN"""
    if a != a and b != b:
        return True
    return a == b


def close(a, b, rel=1e-9):
    if a != a and b != b:
        return True
    if a == b:
        return True
    if not (math.isfinite(a) and math.isfinite(b)):
        return False
    return abs(a - b) <= rel * (1.0 + max(abs(a), abs(b)))


def pos_eq(p, q):
    """position equality, NaN-aware, type-insensitive between python and numpy scalars"""
    if isinstance(p, (list, tuple)) and isinstance(q, (list, tuple)):
        return len(p) == len(q) and all(pos_eq(a, b) for a, b in zip(p, q))
    if isinstance(p, (list, tuple)) or isinstance(q, (list, tuple)):
        return False
    try:
        if p != p and q != q:
            return True
        return bool(p == q)
    except Exception:
        return False


def exception_key(e):
    tb = traceback.extract_tb(e.__traceback__)
    marker = os.sep + "pyvolutionary" + os.sep
    fr = [f for f in tb if marker in f.filename and env.REPO in os.path.realpath(f.filename)]
    if fr:
        f = fr[-1]
        func = f"{os.path.basename(f.filename)}:{f.name}"
        chain = [f"{os.path.basename(x.filename)}:{x.name}" for x in fr[-4:]]
    else:
        func = "none"
        chain = []
    return {"exc": type(e).__name__, "func": func}, chain


def canon(v, depth=0, private=True):
    """canonical JSON-able dump used for frozen-input comparison (C09) and instance-state comparison (C08)"""
    from pydantic import BaseModel
    if depth > 8:
        return "<deep>"
    if isinstance(v, np.ndarray):
        return ["nd", canon(v.tolist(), depth + 1, private)]
    if isinstance(v, (np.floating,)):
        return canon(float(v))
    if isinstance(v, (np.integer,)):
        return int(v)
    if isinstance(v, (np.bool_,)):
        return bool(v)
    if isinstance(v, float):
        if v != v:
            return "NaN"
        if v in (float("inf"), float("-inf")):
            return repr(v)
        return v
    if isinstance(v, (int, str, bool, type(None))):
        return v
    if isinstance(v, BaseModel):
        d = {k: canon(getattr(v, k), depth + 1, private) for k in type(v).model_fields}
        priv = (getattr(v, "__pydantic_private__", None) or {}) if private else {}
        for k in sorted(priv):
            if k == "_label_encoder":
                d[k] = canon(vars(priv[k]), depth + 1, private)
            else:
                d[k] = canon(priv[k], depth + 1, private)
        return {"__model__": type(v).__name__, **d}
    if isinstance(v, dict):
        return {str(k): canon(x, depth + 1, private) for k, x in sorted(v.items(), key=lambda kv: str(kv[0]))}
    if isinstance(v, (list, tuple)):
        return [canon(x, depth + 1, private) for x in v]
    if isinstance(v, (set, frozenset)):
        return sorted(repr(x) for x in v)
    import enum
    if isinstance(v, enum.Enum):
        return f"{type(v).__name__}.{v.name}"
    if hasattr(v, "__dict__"):
        return {"__obj__": type(v).__name__, **canon(vars(v), depth + 1, private)}
    return repr(v)


def diff_fields(a, b, prefix=""):
    """names of the (top-level, dotted one level down) fields in which two canonical dumps differ"""
    out = []
    if isinstance(a, dict) and isinstance(b, dict):
        for k in sorted(set(a) | set(b)):
            if k not in a or k not in b:
                out.append(prefix + k)
            elif json.dumps(a[k], sort_keys=True) != json.dumps(b[k], sort_keys=True):
                out.append(prefix + k)
    elif json.dumps(a, sort_keys=True) != json.dumps(b, sort_keys=True):
        out.append(prefix or "<value>")
    return out


def stop_model(rates, max_cycles, fitness_error, early):
    """reference model of the stop rule (DESIGN C04): index (1-based) of the first cycle at which a criterion holds,
    or None if the history ends before any criterion holds"""
    diffs = []
    prev = 0
    for k, r in enumerate(rates, 1):
        diffs.append(r - prev)
        prev = r
        stop = k >= max_cycles
        if early is not None:
            md, pat = early
            window = diffs[-pat:]
            stop = stop or all((d < 0 and abs(d) < md) for d in window)
        if fitness_error is not None:
            stop = stop or (r <= fitness_error)
        if stop:
            return k
    return None


def make_optimizer(case):
    cls = env.optimizer_classes()[case["opt"]]
    cfg = env.config_class(case["opt"])(**case["cfg"])
    first = env.config_class(case["opt"])(**case["prior_cfg"]) if case.get("prior_cfg") else cfg
    if case.get("debug"):
        # the documented per-cycle progress output (stdout is captured by the harness): printing must not change the run
        try:
            return cls(first, debug=True), cfg
        except TypeError:
            pass
    return cls(first), cfg


def agents_of(gen):
    return gen.agents


def run_case(case, cpu_budget=120.0, record_args=False, delay=None, workdir=None, keep_result=False,
             oracles=True):
    """-> observation dict"""
    hooks.install()
    spec = case["spec"]
    flat = flat_vars(spec["vars"])
    kind = tasks.kind_of_spec(spec)
    rid = f"{os.getpid()}-{case.get('i', 'x')}-{id(case)}"
    mode = case.get("mode") or "serial"
    obs = {"i": case.get("i"), "opt": case["opt"], "kind": kind, "mode": mode, "minmax": spec.get("minmax", "min"),
           "cfg_class": case.get("cfg_class", "base"), "strict": tasks.is_strict_class(spec),
           "workers": case.get("workers"), "viol": {}, "stats": {}, "outcome": None, "prior": len(case.get("prior") or [])}
    calls_file = None
    if mode == "process":
        fd, calls_file = tempfile.mkstemp(prefix="pvcalls.", dir=workdir)
        os.close(fd)
    log = tasks.register_run(rid, spec, record_args=record_args)
    mon = hooks.Monitor()
    mon.calllog = log
    result = None
    opt = None
    try:
        task = tasks.build_task(spec, rid, calls_file=calls_file, record_args=record_args, delay=delay)
        opt, cfg = make_optimizer(case)
    except Exception as e:
        obs["outcome"] = "setup-error"
        obs["exc"] = {"exc": type(e).__name__, "msg": str(e)[:300]}
        tasks.unregister_run(rid)
        if calls_file:
            os.unlink(calls_file)
        return obs
    for j, psp in enumerate(case.get("prior") or []):
        prid = f"{rid}-prior{j}"
        tasks.register_run(prid, psp)
        try:
            from .relational import optimize_plain
            ra = psp.get("_raise_after")
            optimize_plain(opt, tasks.build_task(psp, prid, extra_data={"raise_after": ra} if ra is not None else None),
                           mode="serial", workers=2, cpu_budget=cpu_budget)
        except Exception:
            pass
        finally:
            tasks.unregister_run(prid)
    if case.get("prior_cfg"):
        import json as _json
        opt.set_config_parameters(_json.loads(_json.dumps(case["cfg"])))
        cfg = opt.configuration
    before_cfg = canon(cfg, private=False)
    before_task = task_view(task)
    old = signal.signal(signal.SIGVTALRM, _on_alarm)
    signal.setitimer(signal.ITIMER_VIRTUAL, cpu_budget)
    hooks.CUR.mon = mon
    try:
        with contextlib.redirect_stdout(io.StringIO()):
            kw = {}
            if case.get("mode") is not None:
                kw["mode"] = case["mode"]
            if case.get("workers") is not None:
                kw["workers"] = case["workers"]
            if len(kw) == 2 and int(spec.get("seed") or 0) % 2 == 1:
                result = opt.optimize(task, kw["mode"], kw["workers"])     # the documented positional form
            else:
                result = opt.optimize(task, **kw)
        obs["outcome"] = "ok"
    except CaseTimeout:
        obs["outcome"] = "timeout"
    except Exception as e:
        obs["outcome"] = "exception"
        key, chain = exception_key(e)
        obs["exc"] = {**key, "msg": str(e)[:300], "chain": chain}
    finally:
        signal.setitimer(signal.ITIMER_VIRTUAL, 0)
        signal.signal(signal.SIGVTALRM, old)
        hooks.CUR.mon = None
    try:
        if oracles:
            _apply_oracles(obs, case, spec, flat, cfg, task, before_cfg, before_task, mon, log, calls_file, result)
    finally:
        tasks.unregister_run(rid)
        if calls_file and os.path.exists(calls_file):
            os.unlink(calls_file)
    if keep_result:
        obs["_result"] = result
        obs["_mon"] = mon
        obs["_log"] = log
        obs["_opt"] = opt
    return obs


def _v(obs, prop, key, detail, **extra):
    lst = obs["viol"].setdefault(prop, [])
    if len(lst) < 8:
        lst.append({"key": {"optimizer": obs["opt"], **key}, "detail": detail, **extra})


def best_of(costs, minmax):
    vals = [c for c in costs if c == c]
    if not vals:
        return float("nan")
    return min(vals) if minmax == "min" else max(vals)


def task_view(task):
    """declared fields of the task plus the bounds it reports (the property names variables, bounds, weights, data, seed)"""
    d = canon(task, private=False)
    try:
        lb, ub = task.get_bounds()
        d["get_bounds()"] = canon([list(lb), list(ub)])
    except Exception as e:
        d["get_bounds()"] = f"<{type(e).__name__}>"
    return d


def _apply_oracles(obs, case, spec, flat, cfg, task, before_cfg, before_task, mon, log, calls_file, result):
    opt_name = case["opt"]
    minmax = spec.get("minmax", "min")
    st = obs["stats"]
    st["steps"] = mon.steps
    # ---- C09: frozen inputs (also on the exception path)
    after_cfg = canon(cfg, private=False)
    after_task = task_view(task)
    d1 = diff_fields(before_cfg, after_cfg, "config.")
    d2 = diff_fields(before_task, after_task, "task.")
    st["c09_fields_compared"] = len(before_cfg) + len(before_task)
    for f in d1 + d2:
        side = before_cfg if f.startswith("config.") else before_task
        side2 = after_cfg if f.startswith("config.") else after_task
        name = f.split(".", 1)[1]
        _v(obs, "C09", {"kind": "input-modified", "field": f},
           f"{f}: {json.dumps(side.get(name))[:120]} -> {json.dumps(side2.get(name))[:120]}")
    # ---- C05: objective arguments
    n_calls, bad = log.n, list(log.bad)
    n_bad = log.n_bad
    worker_args = []
    if calls_file:
        n2, bad2, worker_args = tasks.read_calls_file(calls_file)
        n_calls += n2
        n_bad += len(bad2)
        bad.extend(bad2[:50])
        st["calls_in_workers"] = n2
    st["calls"] = n_calls
    st["bad_calls"] = n_bad
    st["threads"] = len(log.threads)
    seen = set()
    for reason, arg in bad:
        k = reason_kind(reason)
        if k in seen:
            continue
        seen.add(k)
        _v(obs, "C05", {"kind": k}, f"objective_function called with {arg[:200]} ({reason})")
    # ---- C06: outcome
    if obs["outcome"] == "exception":
        e = obs["exc"]
        # keyed by (optimizer, exception type, module of the innermost repository frame): robust against renamed helper
        # functions and moved lines; the function chain is part of the witness text only
        # (serial = audited runs additionally carry the raising function as `site`: a known finding lists the sites seen in the
        # audits, so a NEW raise site in the same module is told apart from the recorded one - see report.match_known)
        k06 = {"kind": "exception", "exc": e["exc"], "file": e["func"].split(":")[0]}
        if obs.get("mode") == "serial" and ":" in e["func"] and not case.get("prior"):
            k06["site"] = e["func"].split(":", 1)[1]
        _v(obs, "C06", k06,
           f"{e['exc']} in {e['func']}: {e['msg'][:160]} via {' > '.join(e['chain'])}")
    if result is None:
        return
    evo = result.evolution
    st["generations"] = len(evo)
    if not (len(evo) >= 2 and result.best_solution is not None and len(result.rates) >= 1):
        _v(obs, "C06", {"kind": "incomplete-result"},
           f"evolution={len(evo)} rates={len(result.rates)} best={result.best_solution is not None}")
        return
    # ---- C01 / C02 over every reported agent
    n_agents = 0
    c01_seen = set()
    c02_seen = set()
    perm_labels = None
    all_agents = [(g, a) for g, gen in enumerate(evo) for a in gen.agents] + [("best", result.best_solution)]
    for g, a in all_agents:
        n_agents += 1
        pos = a.position
        reason = member(flat, pos)
        if reason is not None:
            k = reason_kind(reason)
            if k not in c01_seen:
                c01_seen.add(k)
                _v(obs, "C01", {"kind": k}, f"generation {g}: position {repr(pos)[:160]} ({reason})")
            # the cost must be the objective of the reported position even when that position left the search space
            # (the harness objective is total on numeric vectors of the right shape)
            if k not in ("out-of-bounds", "index-type", "index-range", "nan-coordinate", "inf-coordinate"):
                continue
        true_cost = reported_cost(spec, pos, flat)
        cost = a.cost
        ok = feq(cost, true_cost) if spec.get("weights") is None else close(cost, true_cost)
        if not ok and "cost" not in c02_seen:
            c02_seen.add("cost")
            note = " (the exact negative: a sign error)" if close(cost, -true_cost) and true_cost != 0 else ""
            _v(obs, "C02", {"kind": "cost-mismatch"}, f"generation {g}: position {repr(pos)[:120]} reported cost {cost!r}, "
                                                      f"objective gives {true_cost!r}{note}")
        if cost == cost:
            # documented function of the reported cost: 1/(1+c) for c>=0, 1+|c| for c<0 (calculate_fitness undoes the
            # internal negation of max tasks, so it is the same function of the user's cost in both directions)
            cands = [fitness_of(cost)]
            # an objective that hands back float32 values makes the library compute the fitness in float32 arithmetic
            ftol = 1e-6 if spec.get("ret") == "np32" else 1e-12
            if not any(close(a.fitness, c, ftol) for c in cands) and "fitness" not in c02_seen:
                c02_seen.add("fitness")
                _v(obs, "C02", {"kind": "fitness-mismatch"},
                   f"generation {g}: cost {cost!r} fitness {a.fitness!r}, documented value {cands}")
    st["agents"] = n_agents
    # decoding clause of C02 on best_solution and a few agents of the last generation
    try:
        sample = [result.best_solution] + list(evo[-1].agents[:3])
        for a in sample:
            if member(flat, a.position) is not None:
                continue
            got = task.transform_solution(a.position)
            if perm_labels is None:
                perm_labels = {}
                for j, v in enumerate(spec["vars"]):
                    if v[0] == "p":
                        n = len(v[1])
                        lab = task.variables[j].decode(list(range(n)))
                        perm_labels[f"v{j}"] = list(lab)
                        if sorted(map(repr, lab)) != sorted(map(repr, v[1])):
                            _v(obs, "C02", {"kind": "decode-not-a-rearrangement"}, f"decode(identity) = {lab!r}")
            want = tasks.decode(spec["vars"], a.position, perm_labels)
            st["decoded"] = st.get("decoded", 0) + 1
            if json.dumps(canon(got), sort_keys=True) != json.dumps(canon(want), sort_keys=True):
                _v(obs, "C02", {"kind": "decode-mismatch"},
                   f"transform_solution({a.position!r}) = {got!r}, expected {want!r}")
                break
    except Exception as e:
        _v(obs, "C02", {"kind": "decode-exception", "exc": type(e).__name__}, f"transform_solution raised {e!r}"[:200])
    # ---- C03
    last = evo[-1].agents
    best = result.best_solution
    if not any(pos_eq(a.position, best.position) and feq(a.cost, best.cost) for a in last):
        _v(obs, "C03", {"kind": "best-not-in-last-generation"},
           f"best_solution {best.position!r} cost {best.cost!r} is no agent of the last generation")
    else:
        better = [a.cost for a in last if (a.cost < best.cost if minmax == "min" else a.cost > best.cost)]
        if better:
            _v(obs, "C03", {"kind": "best-not-optimal"},
               f"{minmax}: best_solution cost {best.cost!r} but the last generation holds {better[0]!r}")
    # ---- C04 (observational)
    rates = list(result.rates)
    mc = cfg.max_cycles
    if not (mon.steps == len(rates) == len(evo) - 1):
        _v(obs, "C04", {"kind": "shape"}, f"steps={mon.steps} rates={len(rates)} generations={len(evo)}")
    elif mon.steps > mc:
        _v(obs, "C04", {"kind": "too-many-cycles"}, f"steps={mon.steps} > max_cycles={mc}")
    else:
        for k, r in enumerate(rates):
            fits = [a.fitness for a in evo[k + 1].agents]
            want = abs(1 - float(np.average(fits)))
            if not close(r, want, 1e-12):
                _v(obs, "C04", {"kind": "rate-formula"}, f"rate[{k}]={r!r}, |1-mean fitness|={want!r}")
                break
        es = cfg.early_stopping
        early = (es.min_delta, es.patience) if es is not None else None
        k_model = stop_model(rates, mc, cfg.fitness_error, early)
        if k_model != len(rates):
            _v(obs, "C04", {"kind": "stop-rule"},
               f"ran {len(rates)} cycles; model stops at {k_model} (max_cycles={mc}, fitness_error="
               f"{cfg.fitness_error}, early={early}, rates={rates[:8]})")
    # ---- C10
    sizes = [len(g.agents) for g in evo]
    st["sizes"] = [min(sizes), max(sizes)]
    P = case["cfg"]["population_size"]
    bad_size = None
    for k, s in enumerate(sizes):
        if not (1 <= s <= P):
            bad_size = (k, s, "range")
            break
        if opt_name == "BeeColonyOptimization":
            if s != P // 2:
                bad_size = (k, s, "bee-half")
                break
        elif opt_name not in VARIABLE_SIZE and s != P:
            bad_size = (k, s, "exact")
            break
    if bad_size:
        _v(obs, "C10", {"kind": "size-" + bad_size[2]},
           f"generation {bad_size[0]} has {bad_size[1]} agents, population_size={P}; sizes={sizes[:10]}")
    # ---- C15a: history fidelity against the deep snapshots
    if len(mon.snaps) == len(evo):
        st["snap_agents"] = 0
        sign = 1.0 if minmax == "min" else -1.0
        done = False
        for k, (snap, gen) in enumerate(zip(mon.snaps, evo)):
            if len(snap) != len(gen.agents):
                _v(obs, "C15", {"kind": "history-length"}, f"generation {k}: snapshot {len(snap)} vs {len(gen.agents)}")
                break
            # the generation read through Population's own accessors (len / iteration / indexing) is the same generation
            try:
                via_iter = [(a.position, a.cost) for a in gen]
                ok_acc = (len(gen) == len(gen.agents) and len(via_iter) == len(gen.agents)
                          and all(pos_eq(p1, a.position) and feq(c1, a.cost) for (p1, c1), a in zip(via_iter, gen.agents))
                          and pos_eq(gen[0].position, gen.agents[0].position) and feq(gen[0].cost, gen.agents[0].cost)
                          and pos_eq(gen[len(gen.agents) - 1].position, gen.agents[-1].position)
                          and pos_eq(gen[-1].position, gen.agents[-1].position) and feq(gen[-1].cost, gen.agents[-1].cost))
            except Exception as e:
                ok_acc = False
                via_iter = repr(e)
            if not ok_acc:
                _v(obs, "C15", {"kind": "accessor-disagrees"},
                   f"generation {k}: len()/iteration/indexing of the recorded Population disagree with its agents "
                   f"(len {len(gen.agents)}; via iteration: {str(via_iter)[:160]})")
                break
            for j, ((p, c, f), a) in enumerate(zip(snap, gen.agents)):
                st["snap_agents"] += 1
                if not (pos_eq(p, a.position) and feq(sign * c, a.cost) and feq(f, a.fitness)):
                    _v(obs, "C15", {"kind": "history-rewritten"},
                       f"generation {k} agent {j}: after the cycle it was ({p!r}, {sign * c!r}); the result holds "
                       f"({a.position!r}, {a.cost!r})")
                    done = True
                    break
            if done:
                break
    else:
        _v(obs, "C15", {"kind": "history-shape"}, f"{len(mon.snaps)} snapshots vs {len(evo)} generations")
    # ---- C17
    if opt_name not in NON_ELITIST:
        bests = [best_of([a.cost for a in g.agents], minmax) for g in evo]
        st["c17_pairs"] = 0
        for k in range(len(bests) - 1):
            a, b = bests[k], bests[k + 1]
            if a != a or b != b:
                st["c17_nan_pairs"] = st.get("c17_nan_pairs", 0) + 1
                continue
            st["c17_pairs"] += 1
            if (b > a) if minmax == "min" else (b < a):
                _v(obs, "C17", {"kind": "best-lost"}, f"{minmax}: best of generation {k} = {a!r}, of generation "
                                                      f"{k + 1} = {b!r}")
                break
    # ---- C11 oracles that are valid in every mode: exactly-once over pooled operations
    st["pool_ops"] = len(mon.pool_ops)
    nonid = 0
    for op in mon.pool_ops:
        if op["submitted"] != op["gathered"] or op.get("perm") is None or -1 in op["perm"] \
                or sorted(op["perm"]) != list(range(op["submitted"])):
            _v(obs, "C11", {"kind": "pool-exactly-once"},
               f"{op['phase']}: {op['submitted']} futures submitted, {op['gathered']} results gathered, "
               f"order {op.get('perm')}")
            break
        if list(op["perm"]) != sorted(op["perm"]):
            nonid += 1
    st["pool_nonidentity"] = nonid
    # completion order of the futures, observed at the executor (independent of how results are gathered)
    ooo = 0
    orders = []
    for ex in mon.pool_execs:
        comp = list(ex["completed"])
        if comp != sorted(comp):
            ooo += 1
            if len(orders) < 3:
                orders.append(comp)
        if len(comp) != ex["submitted"] or sorted(comp) != list(range(ex["submitted"])):
            _v(obs, "C11", {"kind": "pool-exactly-once"},
               f"{ex['phase']}: {ex['submitted']} futures submitted, completion callbacks for {sorted(comp)[:8]}...")
            break
    st["pool_execs"] = len(mon.pool_execs)
    st["pool_completed_out_of_order"] = ooo
    st["completion_orders"] = orders
    st["perms"] = [list(op["perm"]) for op in mon.pool_ops if op.get("perm") and list(op["perm"]) != sorted(op["perm"])][:3]
    for req, got, phase in mon.generate:
        if req != got:
            _v(obs, "C11", {"kind": "generate-count"}, f"{phase}: _generate_agents({req}) returned {got} agents")
            break
    for old, new, res, gmode in mon.greedy:
        st["greedy_ops"] = st.get("greedy_ops", 0) + 1
        so = sorted(old, key=lambda t: t[1])
        sn = sorted(new, key=lambda t: t[1])
        if any(t[1] != t[1] for t in so + sn):
            continue
        # element-wise serial outcome on cost-sorted populations; ties in the sort key make the pairing ambiguous
        # only between equal costs, so compare multisets of costs (exact) and of (position, cost) when costs are distinct
        want = [n if n[1] < o[1] else o for o, n in zip(so, sn)]
        wc = sorted(t[1] for t in want)
        gc = sorted(t[1] for t in res)
        if wc != gc:
            _v(obs, "C11" if gmode != "serial" else "C16", {"kind": "greedy-population"},
               f"{gmode} greedy selection kept costs {gc[:6]}, element-wise serial outcome {wc[:6]}")
            break
        if len(set(t[1] for t in so)) == len(so) and len(set(t[1] for t in sn)) == len(sn):
            wp = sorted(json.dumps(canon(t)) for t in want)
            gp = sorted(json.dumps(canon(t)) for t in res)
            if wp != gp:
                _v(obs, "C11" if gmode != "serial" else "C16", {"kind": "greedy-population"},
                   f"{gmode} greedy selection result differs from the element-wise serial outcome")
                break
    # exactly-once, second half: every agent returned by _generate_agents while initialising corresponds to one
    # evaluation of exactly its position (each argument vector is its own unique id)
    if log.args is not None:
        import collections as _c
        evaluated = _c.Counter(json.dumps(canon(a)) for a in (log.args + worker_args))
        st["recorded_args"] = sum(evaluated.values())
        for req, got, phase, positions in mon.generated_init:
            need = _c.Counter(json.dumps(canon(p)) for p in positions)
            st["init_agents_matched"] = st.get("init_agents_matched", 0) + len(positions)
            missing = [(k, n, evaluated.get(k, 0)) for k, n in need.items() if evaluated.get(k, 0) < n]
            if missing:
                k, n, have = missing[0]
                _v(obs, "C11", {"kind": "agent-without-evaluation"},
                   f"initial agent(s) at {k[:120]}: {n} agent(s) but {have} evaluation(s) of that position")
                break
    # initial population distinctness (continuous-only tasks; DESIGN C11 iv): agents drawn by _generate_agents while the
    # population is being initialised must not be exact copies of one another (interior points only: points clipped
    # to a bound may legitimately coincide)
    # (not judged on user-defined gridded variables or on bounds a few ulp wide, where the space has few distinct points)
    if obs["strict"] and all(len(v) == 3 and v[2] - v[1] >= 1e-6 for v in flat):
        for req, got, phase, positions in mon.generated_init:
            ipts = [json.dumps(canon(p)) for p in positions if all(v[1] < c < v[2] for c, v in zip(p, flat))]
            st["init_points"] = st.get("init_points", 0) + len(ipts)
            dup = len(ipts) - len(set(ipts))
            if dup > 0:
                _v(obs, "C11", {"kind": "initial-duplicates"},
                   f"{dup} of {len(positions)} randomly drawn initial agents are exact duplicates of another one "
                   f"(mode {obs['mode']}, workers {obs['workers']})")
                break
