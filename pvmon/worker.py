"""Worker process: python -m pvmon.worker <jobfile> <outfile>.
job = {"module": str, "func": str, "items": [...], "opts": {...}}; one JSON line per finished item is appended to
<outfile>: {"k": index-in-batch, "out": <json>} ; stdout/stderr of the library are discarded."""
import importlib
import json
import os
import sys
import traceback


def main():
    jobfile, outfile = sys.argv[1], sys.argv[2]
    job = json.load(open(jobfile))
    devnull = os.open(os.devnull, os.O_WRONLY)
    os.dup2(devnull, 1)
    if not os.environ.get("PVMON_DEBUG"):
        os.dup2(devnull, 2)
    from pvmon import env  # noqa: F401
    mod = importlib.import_module(job["module"])
    func = getattr(mod, job["func"])
    opts = job.get("opts", {})
    with open(outfile, "a") as out:
        for k, item in enumerate(job["items"]):
            try:
                res = func(item, opts)
                rec = {"k": k, "out": res}
            except BaseException as e:  # harness error: reported, never silently dropped
                rec = {"k": k, "harness_error": f"{type(e).__name__}: {e}", "tb": traceback.format_exc()[-1500:]}
                if isinstance(e, KeyboardInterrupt):
                    raise
            out.write(json.dumps(rec, default=repr) + "\n")
            out.flush()


if __name__ == "__main__":
    main()
