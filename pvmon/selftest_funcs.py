"""work functions used only to test the runner's watchdogs"""
import os
import time


def nap(item, opts):
    time.sleep(item)
    return {"slept": item}


def die(item, opts):
    if item == "die":
        os._exit(3)
    return {"ok": item}
