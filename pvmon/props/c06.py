"""C06 - a valid problem yields a result; an invalid call is rejected up front (DESIGN C06)."""
import collections
import contextlib
import io
import json
import os
import random

from .. import env, runner, universe, tasks, hooks
from ..report import Report
from ..runner import Lost
from ..relational import optimize_plain
from . import common

BASELINE_PATH = os.path.join(env.VERIF, "c06_baseline.json")


def baseline():
    try:
        return json.load(open(BASELINE_PATH))["pairs"]
    except FileNotFoundError:
        return {}


# ---- invalid side ----------------------------------------------------------------------------------------------
BAD_MODES = ["Serial", "THREAD", "threads", "parallel", "", " serial", "processes", "sequential", "multi", "proc"]


def work_invalid(item, opts):
    hooks.install()
    name = item["opt"]
    rng = random.Random(f"c06i/{item['seed']}/{name}")
    cls = env.optimizer_classes()[name]
    Cfg = env.config_class(name)
    out = {"opt": name, "n": 0, "viol": [], "kinds": []}
    spec = universe.make_spec(rng, kind=rng.choice(["continuous", "mixed", "discrete"]))
    cfg, _ = universe.make_config(rng, name, max_cycles=3)
    vspec = universe.make_spec(rng, kind="continuous")
    calls = []
    try:
        calls.append(("no-configuration", lambda: cls(), spec, {}))
    except Exception:
        pass
    for m in rng.sample(BAD_MODES, 3):
        calls.append((f"unknown-mode", lambda: cls(Cfg(**cfg)), spec, {"mode": m}))
    for w in (0, -1, -rng.randint(2, 9)):
        calls.append(("non-positive-workers", lambda: cls(Cfg(**cfg)), spec, {"mode": rng.choice(["serial", "thread", "process"]), "workers": w}))
    mo = universe.make_spec(rng, kind="multiobjective")
    more = json.loads(json.dumps(mo)); more["weights"] = mo["weights"] + [1.0]
    fewer = json.loads(json.dumps(mo)); fewer["weights"] = mo["weights"][:-1]
    if len(fewer["weights"]) == 0:
        fewer["weights"] = [1.0] * (len(mo["obj"]) + 2)
    single = json.loads(json.dumps(spec)); single["weights"] = [0.5, 0.5]      # weights on a single-objective task
    for s, kind in ((more, "more-weights-than-objectives"), (fewer, "fewer-weights-than-objectives"), (single, "weights-on-single-objective")):
        calls.append((kind, lambda: cls(Cfg(**cfg)), s, {"mode": rng.choice(["serial", "thread"]), "workers": 2}))
    for kind, mk, s, kw in calls:
        out["n"] += 1
        out["kinds"].append(kind)
        rid = f"c06i-{os.getpid()}-{name}-{out['n']}"
        log = tasks.register_run(rid, s)
        mon = hooks.Monitor()
        try:
            try:
                o = mk()
            except Exception as e:
                out["viol"].append({"key": {"optimizer": name, "kind": "invalid-call", "call": kind},
                                    "detail": f"constructor raised {type(e).__name__}: {e}"[:200]})
                continue
            t = tasks.build_task(s, rid)
            hooks.CUR.mon = mon
            try:
                with contextlib.redirect_stdout(io.StringIO()):
                    o.optimize(t, **kw)
                out["viol"].append({"key": {"optimizer": name, "kind": "invalid-call-accepted", "call": kind},
                                    "detail": f"{kind} {kw}: optimize() returned a result"})
            except ValueError:
                if mon.steps:
                    out["viol"].append({"key": {"optimizer": name, "kind": "invalid-call-rejected-late", "call": kind},
                                        "detail": f"{kind} {kw}: ValueError only after {mon.steps} cycle(s)"})
                elif kind != "no-configuration":
                    # a rejected call must leave the instance usable: the next, valid call yields a result exactly as
                    # it does on a fresh instance (differential, so input-dependent failures of the algorithm itself
                    # are not attributed to the rejected call)
                    hooks.CUR.mon = None
                    vmode = rng.choice(["thread", "serial", "process"])
                    rid2 = rid + "-v"
                    tasks.register_run(rid2, vspec)
                    try:
                        # thread/process runs are not reproducible and individual algorithms have rare input-dependent
                        # failures of their own: the verdict needs the used instance to fail in every repetition and a
                        # fresh instance to succeed in every repetition (continuous task, so such failures are rare)
                        used_fail = []
                        fresh_ok = 0
                        inst = o
                        for rep_ in range(4):
                            st1, r1 = optimize_plain(inst, tasks.build_task(vspec, rid2), mode=vmode, workers=None)
                            if st1 != "exc":
                                break
                            used_fail.append(r1)
                            st2, r2 = optimize_plain(cls(Cfg(**cfg)), tasks.build_task(vspec, rid2), mode=vmode, workers=None)
                            fresh_ok += st2 == "ok"
                            # repeat the whole sequence on a new instance: rejected call, then the valid one
                            inst = mk()
                            try:
                                with contextlib.redirect_stdout(io.StringIO()):
                                    inst.optimize(tasks.build_task(s, rid2), **kw)
                            except Exception:
                                pass
                    finally:
                        tasks.unregister_run(rid2)
                    out["followups"] = out.get("followups", 0) + 1
                    if len(used_fail) == 4 and fresh_ok == 4:
                        r1 = used_fail[0]
                        out["viol"].append({"key": {"optimizer": name, "kind": "valid-call-fails-after-rejected-call", "call": kind},
                                            "detail": f"after the rejected call ({kind} {kw}) a valid optimize(mode={vmode!r}) on the same instance "
                                                      f"raised {r1['exc']} in {r1['func']}: {r1['msg'][:120]} (4 of 4 repetitions); a fresh instance "
                                                      f"succeeded 4 of 4 times"})
            except Exception as e:
                out["viol"].append({"key": {"optimizer": name, "kind": "invalid-call-wrong-error", "call": kind},
                                    "detail": f"{kind} {kw}: raised {type(e).__name__}: {e}"[:250]})
            finally:
                hooks.CUR.mon = None
        finally:
            tasks.unregister_run(rid)
    return out


def definition_rejections(rng):
    """negative weights and inverted bounds are rejected when the task / variable is defined"""
    n = 0
    viol = []
    for _ in range(30):
        spec = universe.make_spec(rng, kind="multiobjective")
        spec["weights"][rng.randrange(len(spec["weights"]))] = -rng.choice([1e-9, 0.5, 3.0])
        n += 1
        try:
            tasks.build_task(spec, "c06-def")
            viol.append({"key": {"component": "Task", "kind": "invalid-definition-accepted", "call": "negative-weights"},
                         "detail": f"weights {spec['weights']} accepted"})
        except ValueError:
            pass
        except Exception as e:
            viol.append({"key": {"component": "Task", "kind": "invalid-call-wrong-error", "call": "negative-weights"}, "detail": repr(e)[:200]})
        a = rng.uniform(-5, 5)
        w = rng.choice([0.0, 1e-9, 2.0])
        for v in (["c", a, a - w], ["cm", [0.0, a], [1.0, a - w]], ["mo", [a, 0.0], [a - w, 1.0]], ["cm", [0.0, 1.0], [1.0]]):
            n += 1
            try:
                tasks.build_variables([v])
                viol.append({"key": {"component": "Variable", "kind": "invalid-definition-accepted", "call": "inverted-bounds"},
                             "detail": f"{v} accepted"})
            except ValueError:
                pass
            except Exception as e:
                viol.append({"key": {"component": "Variable", "kind": "invalid-call-wrong-error", "call": "inverted-bounds"}, "detail": repr(e)[:200]})
    return n, viol


# ---- check -----------------------------------------------------------------------------------------------------
def check(prop, tier, seed):
    rep = Report(prop, tier, seed)
    n = common.tier_n(tier, 1500, 40000)
    items = common.choose_items(prop, tier, seed, n, mode_fraction=0.10, mode_cap=150 if tier == "quick" else 500)
    items += [{"b": k} for k in range(len(universe.battery()))]
    items += [{"v": k} for k in universe.boundary_indices()]
    # user-object variety battery: only its strict-class (continuous) tasks are judged here (0-d array / numpy / int objective
    # values, huge / tiny values, user-defined variable subclass, objective that edits its argument)
    items += [{"y": k} for k, c in enumerate(universe.types_battery()) if tasks.is_strict_class(c["spec"])]
    # integer-coded class: give EVERY (optimizer, encoding) pair that works today at least 6 distinct audited cases per run,
    # so that the wholesale rule can be decided for all of them (c06_pair_index.json lists universe indices per pair)
    try:
        pidx = json.load(open(os.path.join(env.VERIF, "c06_pair_index.json")))["pairs"]
    except FileNotFoundError:
        pidx = {}
    base0 = baseline()
    rr = random.Random(f"c06pairs/{tier}/{seed}")
    have = set(i for i in items if isinstance(i, int))
    per_pair = 6 if tier == "quick" else 16
    for pk in sorted(pidx):
        b = base0.get(pk)
        if b is None or b[1] < 24 or b[0] / b[1] < 0.9:
            continue
        for i in rr.sample(pidx[pk], min(per_pair, len(pidx[pk]))):
            if i not in have:
                have.add(i)
                items.append(i)
    pairs = common.run_campaign(rep, items)
    counters = collections.Counter()
    opts_seen = set()
    strict_ok = strict_exc = 0
    int_pairs = collections.defaultdict(lambda: [0, 0, None])   # pair -> [ok, total, example failing item]
    for item, obs in pairs:
        counters[obs["outcome"]] += 1
        if obs["outcome"] == "timeout":
            rep.lost += 1
            continue
        opts_seen.add(obs["opt"])
        lab = common.item_label(item)
        if obs["strict"]:
            rep.distinct.add(lab)
            if obs["outcome"] == "ok":
                strict_ok += 1
            for v in obs["viol"].get("C06", []):
                strict_exc += 1
                rep.violation(common.with_context(v["key"], obs), f"[strict class, {obs['kind']}, {obs['mode']}, cfg {obs['cfg_class']}] " + v["detail"],
                              replay={"kind": "campaign", "item": item})
        else:
            pk = f"{obs['opt']}|{obs['kind']}"
            e = int_pairs[pk]
            e[1] += 1
            good = obs["outcome"] == "ok" and not obs["viol"].get("C06")
            e[0] += good
            if not good and e[2] is None:
                e[2] = (item, obs["viol"].get("C06", [{}])[0].get("detail", obs["outcome"]))
            rep.distinct.add(lab)
    base = baseline()
    wholesale = []
    judged_pairs = 0
    for pk, (ok, tot, ex) in sorted(int_pairs.items()):
        b = base.get(pk)
        if b is None or b[1] < 24:
            continue
        rate = b[0] / b[1]
        if rate >= 0.9 and tot >= 6:
            judged_pairs += 1
            if ok == 0:
                opt, kind = pk.split("|")
                rep.violation({"optimizer": opt, "kind": "wholesale-failure", "encoding": kind},
                              f"{pk}: baseline success {b[0]}/{b[1]}, now 0 of {tot} distinct cases; e.g. {ex[1]}",
                              replay={"kind": "campaign", "item": ex[0]})
    failing_today = sorted(pk for pk, b in base.items() if b[1] >= 24 and b[0] / b[1] < 0.5)
    # invalid side
    names = universe.opt_names()
    iitems = [{"opt": nme, "seed": f"{seed}/{r}"} for nme in names for r in range(1 if tier == "quick" else 6)]
    res = runner.run_parallel("pvmon.props.c06", "work_invalid", iitems, {})
    invalid_calls = 0
    followups = 0
    inv_opts = set()
    for it, r in zip(iitems, res):
        if isinstance(r, Lost):
            rep.lost += 1
            continue
        invalid_calls += r["n"]
        followups += r.get("followups", 0)
        inv_opts.add(r["opt"])
        rep.evaluations += r["n"]
        for j in range(r["n"]):
            rep.distinct.add(("inv", it["opt"], it["seed"], j))
        for v in r["viol"]:
            rep.violation(v["key"], v["detail"], replay={"kind": "invalid", "item": it})
    nd, dv = definition_rejections(random.Random(f"c06d/{seed}"))
    rep.evaluations += nd
    for v in dv:
        rep.violation(v["key"], v["detail"], replay={"kind": "definition"})
    rep.extra.update({"outcomes": dict(counters), "optimizers_observed": len(opts_seen), "strict_class_runs_ok": strict_ok,
                      "strict_class_exceptions": strict_exc, "integer_pairs_observed": len(int_pairs),
                      "integer_pairs_judged_for_wholesale_failure": judged_pairs,
                      "integer_pairs_failing_in_baseline": len(failing_today),
                      "invalid_calls_judged": invalid_calls, "invalid_definitions_judged": nd,
                      "valid_followup_calls_after_rejection": followups})
    for item, obs in pairs[:3]:
        rep.sample({"item": item, "optimizer": obs["opt"], "task_kind": obs["kind"], "mode": obs["mode"], "outcome": obs["outcome"]})
    rep.sample({"invalid_calls_per_optimizer": ["no configuration", "unknown mode x3", "workers in {0,-1,-k}", "more/fewer weights than objectives", "weights on a single objective"]})
    rep.rule = ("valid side: campaign cases in all modes; strict class (continuous / multi-objective) - every exception is "
                "keyed (optimizer, type, innermost pyvolutionary function) and must be a listed known finding; integer-coded "
                "class - per (optimizer, encoding) pair with audited baseline success >= 0.9, failing in all of >= 6 distinct "
                "cases is a violation; invalid side: 10 invalid calls per optimizer must raise ValueError with zero "
                "optimization_step invocations, invalid definitions must raise ValueError at construction")
    rep.require("optimizers_observed", len(opts_seen), 84)
    rep.require("strict_class_runs_ok", strict_ok, 800 if n >= 1500 else 10)
    rep.require("integer_pairs_judged_for_wholesale_failure", judged_pairs, 300)
    rep.require("invalid_calls_judged", invalid_calls, 84 * 8)
    rep.require("invalid_side_optimizers", len(inv_opts), 84)
    return rep.finish()


def replay(prop, data):
    rp = data["replay"]
    if rp.get("kind") == "invalid":
        r = work_invalid(rp["item"], {})
        for v in r["viol"]:
            print(f"[{prop}] replay: {v['detail']}")
        return bool(r["viol"])
    if rp.get("kind") == "definition":
        n, dv = definition_rejections(random.Random(f"c06d/{data.get('seed', 0)}"))
        return bool(dv)
    from . import simple
    return simple.replay(prop, data)
