"""C20 - Multitask runs every algorithm on every task with the designated mode (DESIGN C20)."""
import collections
import contextlib
import io
import itertools
import json
import os
import random
import shutil
import tempfile

from .. import env, runner, universe, tasks
from ..report import Report
from ..runner import Lost
from pyvolutionary import Multitask, Task, ContinuousVariable, Agent, OptimizationResult
from pyvolutionary.abstract import OptimizationAbstract
from pyvolutionary.models import BaseOptimizationConfig

MODES = ["serial", "thread", "process"]


class _Probe(OptimizationAbstract):
    def optimization_step(self):
        pass

    def set_config_parameters(self, parameters):
        self._config = BaseOptimizationConfig(**parameters)

    def optimize(self, task, mode=None, workers=None):
        line = json.dumps({"algo": self.name, "task": task.name, "mode": mode, "workers": workers, "pid": os.getpid()}) + "\n"
        fd = os.open(task.data["log"], os.O_WRONLY | os.O_APPEND | os.O_CREAT, 0o644)
        try:
            os.write(fd, line.encode())
        finally:
            os.close(fd)
        return OptimizationResult(evolution=[], rates=[0.5], best_solution=Agent(position=[0.0], cost=1.0, fitness=0.5))


class ProbeAlpha(_Probe):
    pass


class ProbeBeta(_Probe):
    pass


class ProbeGamma(_Probe):
    pass


class _PT(Task):
    def objective_function(self, x):
        return 0.0


class TaskOne(_PT):
    pass


class TaskTwo(_PT):
    pass


class TaskThree(_PT):
    pass


class _ModeProbe(Task):
    """a real task whose objective logs WHERE it is evaluated (pid, main thread or not): the only place from which the solver
    mode actually used by a real optimizer can be observed"""

    def objective_function(self, x):
        import threading
        line = json.dumps({"task": self.name, "pid": os.getpid(), "main": threading.current_thread() is threading.main_thread()}) + "\n"
        fd = os.open(self.data["log"], os.O_WRONLY | os.O_APPEND | os.O_CREAT, 0o644)
        try:
            os.write(fd, line.encode())
        finally:
            os.close(fd)
        return float(sum((float(v) - 0.5) ** 2 for v in x))


class ModeProbeSerial(_ModeProbe):
    pass


class ModeProbeThread(_ModeProbe):
    pass


class ModeProbeProcess(_ModeProbe):
    pass


def work_modes(item, opts):
    """real optimizer x three real tasks designated serial / thread / process (per-task modes), with and without n_workers"""
    rng = random.Random(f"c20m/{item['seed']}")
    name = rng.choice(["ParticleSwarmOptimization", "GreyWolfOptimization", "WhalesOptimization", "HarmonySearchOptimization"])
    cfg = dict(universe.base_configs()[name]); cfg["max_cycles"] = 2; cfg["fitness_error"] = None
    out = {"viol": [], "calls": 0}
    wd = tempfile.mkdtemp(prefix="c20m.", dir=os.environ.get("PVMON_WORKDIR"))
    try:
        log = os.path.join(wd, "where.jsonl")
        classes = [ModeProbeSerial, ModeProbeThread, ModeProbeProcess]
        modes = ("serial", "thread", "process")
        tsks = tuple(C(variables=[ContinuousVariable(name="x", lower_bound=-1, upper_bound=1), ContinuousVariable(name="y", lower_bound=0, upper_bound=2)],
                       data={"log": log}) for C in classes)
        algo = env.optimizer_classes()[name](env.config_class(name)(**cfg))
        n_trials = item["n_trials"]
        mt = Multitask((algo,), tsks, modes=modes, n_workers=item["n_workers"])
        with contextlib.redirect_stdout(io.StringIO()):
            mt.execute(n_trials=n_trials, n_jobs=2)
        calls = [json.loads(l) for l in open(log)] if os.path.exists(log) else []
        out["calls"] = len(calls)
        by = collections.defaultdict(list)
        for c in calls:
            by[c["task"]].append(c)
        what = f"{name}, n_workers={item['n_workers']}, trials={n_trials}"
        s_ = by.get("ModeProbeSerial", [])
        if not s_ or any(not c["main"] for c in s_) or len({c["pid"] for c in s_}) > n_trials:
            out["viol"].append({"key": {"component": "Multitask", "kind": "designated-mode-not-used", "mode": "serial"},
                                "detail": f"{what}: task designated 'serial' evaluated from {len({c['pid'] for c in s_})} processes, "
                                          f"{sum(not c['main'] for c in s_)} calls off the main thread"})
        t_ = by.get("ModeProbeThread", [])
        if not t_ or all(c["main"] for c in t_):
            out["viol"].append({"key": {"component": "Multitask", "kind": "designated-mode-not-used", "mode": "thread"},
                                "detail": f"{what}: task designated 'thread': all {len(t_)} evaluations ran on the main thread of the trial process"})
        p_ = by.get("ModeProbeProcess", [])
        if not p_ or len({c["pid"] for c in p_}) <= n_trials:
            out["viol"].append({"key": {"component": "Multitask", "kind": "designated-mode-not-used", "mode": "process"},
                                "detail": f"{what}: task designated 'process': evaluations came from {len({c['pid'] for c in p_})} process(es) for {n_trials} trial(s)"})
    except Exception as e:
        out["viol"].append({"key": {"component": "Multitask", "kind": "execute-exception", "shape": "modes-real"}, "detail": f"{type(e).__name__}: {e}"[:300]})
    finally:
        shutil.rmtree(wd, ignore_errors=True)
    return out


ALGOS = [ProbeAlpha, ProbeBeta, ProbeGamma]
TASKS = [TaskOne, TaskTwo, TaskThree]


def designated(shape, modes, n, m):
    """-> list of acceptable n x m mode tables"""
    if shape == "none":
        return [[["serial"] * m for _ in range(n)]]
    if shape == "one":
        return [[[modes[0]] * m for _ in range(n)]]
    if shape == "per-algorithm":
        t = [[[modes[i]] * m for i in range(n)]]
        if n == m:
            t.append([[modes[j] for j in range(m)] for _ in range(n)])
        return t
    if shape == "per-task":
        t = [[[modes[j] for j in range(m)] for _ in range(n)]]
        if n == m:
            t.append([[modes[i]] * m for i in range(n)])
        return t
    if shape == "per-pair":
        return [[[modes[i * m + j] for j in range(m)] for i in range(n)]]
    raise ValueError(shape)


def work(item, opts):
    n, m, shape, n_trials, n_workers = item["n"], item["m"], item["shape"], item["n_trials"], item["n_workers"]
    modes = tuple(item["modes"]) if item["modes"] is not None else None
    wd = tempfile.mkdtemp(prefix="c20.", dir=os.environ.get("PVMON_WORKDIR"))
    out = {"viol": [], "calls": 0, "files": 0}
    what = f"n={n} m={m} modes[{shape}]={modes} trials={n_trials} debug={bool(item.get('debug'))}"

    def viol(kind, detail):
        out["viol"].append({"key": {"component": "Multitask", "kind": kind, "shape": shape}, "detail": f"{what}: {detail}"[:500]})
    try:
        log = os.path.join(wd, "log.jsonl")
        cfg = BaseOptimizationConfig(population_size=2, max_cycles=1)
        algos = tuple(A(cfg) for A in ALGOS[:n])
        tsks = tuple(T(variables=[ContinuousVariable(name="x", lower_bound=0, upper_bound=1)], data={"log": log}) for T in TASKS[:m])
        try:
            mt = Multitask(algos, tsks, modes=modes, n_workers=n_workers)
        except Exception as e:
            viol("constructor-rejects-valid-modes", f"{type(e).__name__}: {e}")
            return out
        try:
            with contextlib.redirect_stdout(io.StringIO()):
                mt.execute(n_trials=n_trials, n_jobs=item.get("n_jobs", 2), debug=bool(item.get("debug")))
        except Exception as e:
            viol("execute-exception", f"{type(e).__name__}: {e}")
            return out
        calls = [json.loads(l) for l in open(log)] if os.path.exists(log) else []
        out["calls"] = len(calls)
        got = collections.Counter((c["algo"], c["task"]) for c in calls)
        want = collections.Counter({(A.__name__, T.__name__): n_trials for A in ALGOS[:n] for T in TASKS[:m]})
        if got != want:
            viol("pair-coverage", f"runs per (algorithm, task): {dict((f'{a}/{t}', k) for (a, t), k in got.items())}, expected {n_trials} for each of the {n * m} pairs")
            return out
        tables = designated(shape, modes, n, m)
        ok_any = False
        for tab in tables:
            if all(c["mode"] == tab[[A.__name__ for A in ALGOS].index(c["algo"])][[T.__name__ for T in TASKS].index(c["task"])] for c in calls):
                ok_any = True
        if not ok_any:
            seen = {f"{c['algo']}/{c['task']}": c["mode"] for c in calls}
            viol("wrong-mode", f"modes used {seen}, designated {tables[0]}")
        if any(c["workers"] != n_workers for c in calls):
            viol("wrong-workers", f"workers passed {sorted({str(c['workers']) for c in calls})}, n_workers={n_workers}")
        # tables
        dfs = mt._df2
        if len(dfs) != n or any(df.shape != (n_trials, m) for df in dfs):
            viol("tables", f"{len(dfs)} tables with shapes {[df.shape for df in dfs]}, expected {n} tables of {n_trials} rows x {m} columns")
        else:
            for i, df in enumerate(dfs):
                cols = list(df.columns)
                if len(set(map(str, cols))) != m or any(not any(T.__name__ in str(c) for c in cols) for T in TASKS[:m]):
                    viol("tables", f"table {i} columns {cols}")
                    break
        # export
        for fmt in item["formats"]:
            sp = os.path.join(wd, "out_" + fmt)
            try:
                mt.export_results(fmt, sp)
            except Exception as e:
                viol("export-exception", f"{fmt}: {type(e).__name__}: {e}")
                continue
            found = []
            for root, dirs, files in os.walk(sp):
                for f in files:
                    found.append(os.path.relpath(os.path.join(root, f), sp))
            out["files"] += len(found)
            want_dirs = sorted(A.__name__ for A in ALGOS[:n])
            got_dirs = sorted(os.path.dirname(f) for f in found)
            ext = {"csv": ".csv", "json": ".json", "dataframe": ".pkl"}[fmt]
            if got_dirs != want_dirs:
                viol("export-layout", f"{fmt}: files {sorted(found)}, expected exactly one {ext} file in each of {want_dirs}")
    finally:
        shutil.rmtree(wd, ignore_errors=True)
    return out


def work_reject(item, opts):
    """unknown mode strings are rejected by the constructor"""
    n, m = item["n"], item["m"]
    cfg = BaseOptimizationConfig(population_size=2, max_cycles=1)
    algos = tuple(A(cfg) for A in ALGOS[:n])
    tsks = tuple(T(variables=[ContinuousVariable(name="x", lower_bound=0, upper_bound=1)], data={"log": os.devnull}) for T in TASKS[:m])
    out = {"viol": [], "n": 0}
    for modes in item["bad"]:
        out["n"] += 1
        try:
            Multitask(algos, tsks, modes=tuple(modes))
            out["viol"].append({"key": {"component": "Multitask", "kind": "unknown-mode-accepted"},
                                "detail": f"n={n} m={m}: modes={modes} accepted by the constructor"})
        except ValueError:
            pass
        except Exception as e:
            out["viol"].append({"key": {"component": "Multitask", "kind": "unknown-mode-wrong-error"},
                                "detail": f"n={n} m={m}: modes={modes}: {type(e).__name__}: {e}"[:300]})
    return out


def work_real(item, opts):
    rng = random.Random(f"c20r/{item['seed']}")
    names = rng.sample(["ParticleSwarmOptimization", "GreyWolfOptimization", "WhalesOptimization", "HarmonySearchOptimization", "BatOptimization"], 3)
    out = {"viol": []}
    algos = []
    for nme in names:
        cfg = dict(universe.base_configs()[nme]); cfg["max_cycles"] = 2
        algos.append(env.optimizer_classes()[nme](env.config_class(nme)(**cfg)))
    specs = [universe.make_spec(rng, kind="continuous"), universe.make_spec(rng, kind="mixed")]
    rid = f"c20r-{os.getpid()}"
    tsks = []
    for j, (s, cls) in enumerate(zip(specs, ["MonTask", "MonTaskB"])):
        s["seed"] = None
        tasks.register_run(f"{rid}-{j}", s)
        tsks.append(tasks.build_task(s, f"{rid}-{j}", cls=cls))
    try:
        mt = Multitask(tuple(algos), tuple(tsks), modes=tuple(item["modes"]), n_workers=2)
        with contextlib.redirect_stdout(io.StringIO()):
            mt.execute(n_trials=2, n_jobs=2)
        if len(mt._df2) != 3 or any(df.shape != (2, 2) for df in mt._df2):
            out["viol"].append({"key": {"component": "Multitask", "kind": "tables", "shape": "real"}, "detail": f"real optimizers: shapes {[df.shape for df in mt._df2]}"})
        else:
            for df in mt._df2:
                for col in df.columns:
                    for cell in df[col]:
                        r = cell["solution"] if isinstance(cell, dict) else cell
                        if not isinstance(r, OptimizationResult) or r.best_solution is None:
                            out["viol"].append({"key": {"component": "Multitask", "kind": "tables", "shape": "real"}, "detail": f"cell of {col} is {type(r).__name__}"})
                            break
    except Exception as e:
        out["viol"].append({"key": {"component": "Multitask", "kind": "execute-exception", "shape": "real"}, "detail": f"real optimizers {names}: {type(e).__name__}: {e}"[:300]})
    finally:
        for j in range(2):
            tasks.unregister_run(f"{rid}-{j}")
    return out


def make_items(tier, seed):
    rng = random.Random(f"c20/{tier}/{seed}")
    combos = []
    for n, m in itertools.product((1, 2, 3), repeat=2):
        for shape in ("none", "one", "per-algorithm", "per-task", "per-pair"):
            combos.append((n, m, shape))
    reps = 1 if tier == "quick" else 40
    items = []
    for rep in range(reps):
        for n, m, shape in combos:
            L = {"none": 0, "one": 1, "per-algorithm": n, "per-task": m, "per-pair": n * m}[shape]
            modes = [rng.choice(MODES) for _ in range(L)] if shape != "none" else None
            if modes is not None and len(set(modes)) == 1 and L > 1:
                modes[rng.randrange(L)] = rng.choice([x for x in MODES if x != modes[0]])
            items.append({"n": n, "m": m, "shape": shape, "modes": modes, "n_trials": rng.choice([1, 2, 3]),
                          "n_workers": rng.choice([None, 2, 5]), "debug": rng.random() < 0.4, "n_jobs": rng.choice([2, 2, 3, 1]), "formats": rng.sample(["csv", "json", "dataframe"], 1 if tier == "quick" else 2)})
    return items


def check(prop, tier, seed):
    rep = Report(prop, tier, seed)
    items = make_items(tier, seed)
    res = runner.run_parallel("pvmon.props.c20", "work", items, {}, jobs=8, per_item_s=60)
    calls = files = done = 0
    shapes = collections.Counter()
    for it, r in zip(items, res):
        rep.evaluations += 1
        if isinstance(r, Lost):
            rep.lost += 1
            continue
        done += 1
        calls += r["calls"]
        files += r["files"]
        shapes[it["shape"]] += 1
        rep.distinct.add(json.dumps([it["n"], it["m"], it["shape"], it["modes"], it["n_trials"]]))
        for v in r["viol"]:
            rep.violation(v["key"], v["detail"], replay={"kind": "multitask", "item": it})
    rng = random.Random(f"c20b/{seed}")
    bad_strings = ["Serial", "threads", "parallel", "", "proc", "THREAD", "sequential"]
    ritems = []
    for n, m in itertools.product((1, 2, 3), repeat=2):
        bad = []
        for L in sorted({1, n, m, n * m}):
            ms = [rng.choice(MODES) for _ in range(L)]
            ms[rng.randrange(L)] = rng.choice(bad_strings)
            bad.append(ms)
        ritems.append({"n": n, "m": m, "bad": bad})
    res = runner.run_parallel("pvmon.props.c20", "work_reject", ritems, {}, batch=3)
    rejected = 0
    for it, r in zip(ritems, res):
        if isinstance(r, Lost):
            rep.lost += 1
            continue
        rejected += r["n"]
        rep.evaluations += r["n"]
        for v in r["viol"]:
            rep.violation(v["key"], v["detail"], replay={"kind": "reject", "item": it})
    real_items = [{"seed": f"{seed}/{k}", "modes": rng.choice([["serial"], ["thread"], ["serial", "thread"], ["serial", "thread", "serial"]])}
                  for k in range(3 if tier == "quick" else 20)]
    res = runner.run_parallel("pvmon.props.c20", "work_real", real_items, {}, jobs=3, per_item_s=200)
    real_done = 0
    for it, r in zip(real_items, res):
        rep.evaluations += 1
        if isinstance(r, Lost):
            rep.lost += 1
            continue
        real_done += 1
        for v in r["viol"]:
            rep.violation(v["key"], v["detail"], replay={"kind": "real", "item": it})
    mitems = [{"seed": f"{seed}/{k}", "n_trials": rng.choice([1, 2]), "n_workers": [2, None, 3, 2][k % 4]} for k in range(4 if tier == "quick" else 24)]
    res = runner.run_parallel("pvmon.props.c20", "work_modes", mitems, {}, jobs=4, per_item_s=200)
    modes_done = 0
    for it, r in zip(mitems, res):
        rep.evaluations += 1
        if isinstance(r, Lost):
            rep.lost += 1
            continue
        modes_done += 1
        rep.distinct.add(("modes", it["seed"]))
        for v in r["viol"]:
            rep.violation(v["key"], v["detail"], replay={"kind": "modes", "item": it})
    rep.extra["real_runs_observed_at_the_objective"] = modes_done
    rep.extra.update({"multitask_instances": done, "scripted_optimize_calls_logged": calls, "exported_files_checked": files,
                      "instances_by_modes_shape": dict(shapes), "unknown_mode_tuples_judged": rejected, "real_end_to_end_runs": real_done})
    rep.sample(items[7])
    rep.sample(items[-1])
    rep.rule = ("all (n, m) in 1..3 x 1..3 x {None, one value, per algorithm, per task, per pair} modes shapes over "
                "serial/thread/process, n_trials 1..3; scripted optimizers (distinct classes) log (algorithm, task class, "
                "mode, workers) per optimize() call from the pool processes; oracle: every pair exactly n_trials times with "
                "the designated mode (n == m: either consistent reading) and n_workers, one n_trials x m table per algorithm, "
                "export: exactly one file per algorithm directly under <save_path>/<algorithm>/, unknown modes rejected")
    rep.require("multitask_instances", done, int(0.9 * len(items)))
    rep.require("scripted_optimize_calls_logged", calls, 4 * len(items))
    rep.require("exported_files_checked", files, len(items))
    rep.require("unknown_mode_tuples_judged", rejected, 18)
    rep.require("real_end_to_end_runs", real_done, 2)
    rep.require("real_runs_observed_at_the_objective", modes_done, 3)
    return rep.finish()


def replay(prop, data):
    rp = data["replay"]
    r = {"multitask": work, "reject": work_reject, "real": work_real, "modes": work_modes}[rp["kind"]](rp["item"], {})
    for v in r["viol"]:
        print(f"[{prop}] replay: {v['detail']}")
    return bool(r["viol"])
