"""C19 - HyperTuner evaluates the whole grid and selects the best parameters (DESIGN C19)."""
import itertools
import json
import math
import os
import random
import shutil
import tempfile

import numpy as np

from .. import env, runner, universe, tasks, hooks
from ..report import Report
from ..runner import Lost
from ..run import canon
import pyvolutionary as pv
from pyvolutionary import HyperTuner, Task, ContinuousVariable, Agent, OptimizationResult
from pyvolutionary.hypertuner import ParameterGrid
from pyvolutionary.abstract import OptimizationAbstract
from pyvolutionary.models import BaseOptimizationConfig


# ---- scripted optimizer ------------------------------------------------------------------------------------------
class ProbeConfig(BaseOptimizationConfig):
    population_size: int = 4
    max_cycles: int = 1
    a: int = -1
    b: float = -1.0
    c: str = "none"
    d: bool = True


def point_key(params):
    return json.dumps({k: params[k] for k in sorted(params)}, sort_keys=True)


class GridProbe(OptimizationAbstract):
    """logs the parameters it was configured with on every optimize() call and returns a scripted cost"""

    def optimization_step(self):
        pass

    def set_config_parameters(self, parameters):
        self._config = ProbeConfig(**parameters)

    def optimize(self, task, mode=None, workers=None):
        cfg = self._config
        params = {k: getattr(cfg, k) for k in sorted(cfg.model_fields_set)}
        key = point_key(params)
        d = task.data
        vals = d["table"].get(key, [d["default"]])
        # claim the first free trial slot of this grid point atomically (works across pool processes)
        k = 0
        h = abs(hash(key)) if False else sum(ord(ch) * (i + 1) for i, ch in enumerate(key)) % 10 ** 9
        while True:
            try:
                fd = os.open(os.path.join(d["slots"], f"{h}-{k}"), os.O_CREAT | os.O_EXCL | os.O_WRONLY)
                os.close(fd)
                break
            except FileExistsError:
                k += 1
        cost = vals[k % len(vals)]
        line = json.dumps({"params": params, "cost": cost, "pid": os.getpid(), "mode": mode, "workers": workers}) + "\n"
        fd = os.open(d["log"], os.O_WRONLY | os.O_APPEND | os.O_CREAT, 0o644)
        try:
            os.write(fd, line.encode())
        finally:
            os.close(fd)
        return OptimizationResult(evolution=[], rates=[0.5], best_solution=Agent(position=[0.0], cost=cost, fitness=1.0))


class ProbeTask(Task):
    def objective_function(self, x):
        return 0.0


# ---- ParameterGrid laws -----------------------------------------------------------------------------------------
def expected_points(grid):
    grids = [grid] if isinstance(grid, dict) else list(grid)
    out = []
    for g in grids:
        items = sorted(g.items())
        if not items:
            out.append({})
            continue
        keys = [k for k, _ in items]
        for combo in itertools.product(*[list(v) for _, v in items]):
            out.append(dict(zip(keys, combo)))
    return out


def grid_laws(grid):
    """-> list of violation details"""
    bad = []
    try:
        g = ParameterGrid(grid)
        pts = list(g)
        want = expected_points(grid)
        # the property fixes WHICH points are visited (and that len / iteration / indexing agree), not their order
        if sorted(point_key(p) for p in pts) != sorted(point_key(p) for p in want):
            bad.append(("iteration", f"grid {grid!r}: iteration gives {pts!r}, union of Cartesian products is {want!r}"))
        if len(g) != len(pts):
            bad.append(("len", f"grid {grid!r}: len() = {len(g)}, iteration yields {len(pts)}"))
        for i in range(len(pts)):
            gi = g[i]
            if point_key(gi) != point_key(pts[i]):
                bad.append(("getitem", f"grid {grid!r}: g[{i}] = {gi!r}, list(g)[{i}] = {pts[i]!r}"))
                break
        try:
            g[len(pts)]
            bad.append(("getitem-range", f"grid {grid!r}: g[len] did not raise IndexError"))
        except IndexError:
            pass
    except Exception as e:
        bad.append(("exception", f"grid {grid!r}: {type(e).__name__}: {e}"))
    return bad


def all_small_grids():
    keys = ["a", "b", "c"]
    # falsy-but-valid values (0, 0.0) are deliberately part of the grids, and keys are inserted in every order
    vals = {"a": [0, 2, 3], "b": [0.0, 1.5, 2.5], "c": ["x", "y", "z"]}
    dicts = [{}]
    for nk in (1, 2, 3):
        for ks in itertools.permutations(keys, nk):
            for sizes in itertools.product((1, 2, 3), repeat=nk):
                dicts.append({k: vals[k][:s] for k, s in zip(ks, sizes)})
    dicts.append({"d": [False, True], "a": [0, 2]})
    dicts.append({"d": [False]})
    return dicts


# ---- tuner runs --------------------------------------------------------------------------------------------------
def make_table(rng, points, n_trials, style, scale=1.0):
    table = {}
    base = [rng.choice([-6.0, -2.5, 0.0, 1.0, 3.5, 7.0, 12.0]) for _ in points]
    for p, m in zip(points, base):
        if style == "distinct":
            m = m + rng.random()
            vals = [m + rng.uniform(-0.4, 0.4) for _ in range(n_trials)]
            if n_trials >= 10:      # late trials carry weight: a mean over the first nine trials ranks differently
                vals[9:] = [v + rng.choice([-40.0, 40.0]) for v in vals[9:]]
        elif style == "tied-means":
            m = rng.choice([-2.0, 0.0, 5.0])
            spread = rng.choice([0.0, 0.5, 2.0])
            vals = [m + spread * ((-1) ** t) * (1 if n_trials % 2 == 0 or t < n_trials - 1 else 0) for t in range(n_trials)]
        elif style == "all-equal":
            vals = [1.25] * n_trials
        else:   # negative
            vals = [-abs(m) - rng.random() * 3 for _ in range(n_trials)]
        table[point_key(p)] = [v * scale for v in vals]
    return table


def work_tuner(item, opts):
    rng = random.Random(f"c19/{item['seed']}")
    grid = item["grid"]
    n_trials = item["n_trials"]
    minmax = item["minmax"]
    points = expected_points(grid)
    scale = float(item.get("scale", 1.0))       # the objective's unit: scores of order 1e-300, 1e-13, 1 or 1e9
    table = make_table(rng, points, n_trials, item["style"], scale)
    wd = tempfile.mkdtemp(prefix="c19.", dir=os.environ.get("PVMON_WORKDIR"))
    out = {"viol": [], "points": len(points), "calls": 0}

    def viol(kind, detail):
        out["viol"].append({"key": {"component": "HyperTuner", "kind": kind}, "detail": f"grid={grid!r} trials={n_trials} {minmax} [{item['style']}, scores x {item.get('scale', 1.0)}]: {detail}"[:500]})
    try:
        os.mkdir(os.path.join(wd, "slots"))
        log = os.path.join(wd, "log.jsonl")
        task = ProbeTask(variables=[ContinuousVariable(name="x", lower_bound=0, upper_bound=1)], minmax=minmax,
                         data={"table": table, "default": 99.0, "slots": os.path.join(wd, "slots"), "log": log})
        algo = GridProbe()
        tuner = HyperTuner(algo, param_grid=json.loads(json.dumps(grid)))
        try:
            import contextlib, io
            with contextlib.redirect_stdout(io.StringIO()):
                tuner.execute(task, n_trials=n_trials, n_jobs=item.get("n_jobs", 2), mode=item.get("mode", "serial"), n_workers=2,
                              debug=bool(item.get("debug")))
        except Exception as e:
            viol("execute-exception", f"{type(e).__name__}: {e}")
            return out
        calls = [json.loads(l) for l in open(log)] if os.path.exists(log) else []
        out["calls"] = len(calls)
        import collections
        want = collections.Counter()
        for p in points:
            want[point_key(p)] += n_trials
        got = collections.Counter(point_key(c["params"]) for c in calls)
        if got != want:
            missing = {k: n - got.get(k, 0) for k, n in want.items() if got.get(k, 0) != n}
            extra = {k: n for k, n in got.items() if k not in want}
            viol("grid-coverage", f"evaluations per grid point differ: expected {n_trials} each; off by {missing}; unexpected parameter sets {extra}")
            return out
        means = {}
        by = collections.defaultdict(list)
        for c in calls:
            by[point_key(c["params"])].append(c["cost"])
        for k, v in by.items():
            means[k] = sum(v) / len(v)
        opt = min(means.values()) if minmax == "min" else max(means.values())
        bp = tuner.best_parameters
        if not isinstance(bp, dict) or point_key(bp) not in means:
            viol("best-not-a-grid-point", f"best_parameters = {bp!r}")
            return out
        mbp = means[point_key(bp)]
        if not math.isclose(mbp, opt, rel_tol=1e-12, abs_tol=1e-12 * scale):
            viol("best-not-optimal", f"best_parameters = {bp!r} with mean {mbp!r}; optimal mean is {opt!r} (means {means})")
        elif not math.isclose(float(tuner.best_score), mbp, rel_tol=1e-12, abs_tol=1e-12 * scale):
            viol("best-score", f"best_score = {tuner.best_score!r}, mean of best_parameters = {mbp!r}")
        # resolve()
        n_before = len(calls)
        try:
            r = tuner.resolve(mode="serial")
            calls2 = [json.loads(l) for l in open(log)]
            if not isinstance(r, OptimizationResult) or len(calls2) != n_before + 1 or point_key(calls2[-1]["params"]) != point_key(bp):
                viol("resolve", f"resolve() ran with {calls2[-1]['params'] if len(calls2) > n_before else None!r}, best_parameters {bp!r}")
            elif algo.configuration != ProbeConfig(**bp):
                viol("resolve", f"configuration after resolve {algo.configuration!r} != Config(**best_parameters)")
        except Exception as e:
            viol("resolve", f"resolve() raised {type(e).__name__}: {e}")
    finally:
        shutil.rmtree(wd, ignore_errors=True)
    return out


def _logged(base_name):
    base = env.optimizer_classes()[base_name]

    class Logged(base):
        """the real optimizer; optimize() additionally logs the configuration it actually runs with"""

        def optimize(self, task, mode=None, workers=None):
            line = json.dumps({"config": canon(self.configuration.model_dump())}, sort_keys=True) + "\n"
            fd = os.open(task.data["cfglog"], os.O_WRONLY | os.O_APPEND | os.O_CREAT, 0o644)
            try:
                os.write(fd, line.encode())
            finally:
                os.close(fd)
            # the run itself is not the subject here (and real algorithms have input-dependent failures of their own):
            # return a synthetic result whose cost is a deterministic function of the configuration
            cost = float(sum(ord(ch) for ch in line) % 997)
            return OptimizationResult(evolution=[], rates=[0.5], best_solution=Agent(position=[0.0], cost=cost, fitness=0.5))

    Logged.__name__ = Logged.__qualname__ = "Logged" + base_name
    return Logged


LOGGED_BASES = ["ForestOptimizationAlgorithm", "CatSwarmOptimization", "BatOptimization", "FoxOptimization",
                "MonarchButterflyOptimization", "GizaPyramidConstructionOptimization", "ParticleSwarmOptimization"]
for _n in LOGGED_BASES:
    globals()["Logged" + _n] = _logged(_n)


def work_logged(item, opts):
    """real optimizers driven by HyperTuner through sub-grids that tune DIFFERENT optional parameters: every trial must run
    with exactly Config(**point)"""
    import collections
    rng = random.Random(f"c19l/{item['seed']}")
    name = item["opt"]
    out = {"viol": [], "points": 0, "calls": 0}
    Cfg = env.config_class(name)
    base = dict(universe.base_configs()[name])
    base["max_cycles"] = 2
    base["fitness_error"] = None
    base["population_size"] = base["population_size"] * 2
    fields = Cfg.model_fields
    optional = [k for k in sorted(fields) if not fields[k].is_required() and k not in ("early_stopping", "fitness_error")]
    required = {k: [v] for k, v in base.items() if fields[k].is_required()}
    subgrids = []
    req1 = {k: v[0] for k, v in required.items()}
    for k in optional[:4]:
        d0 = fields[k].default
        cands = [not d0] if isinstance(d0, bool) else [d0 + 1, d0 - 1, d0 + 2] if isinstance(d0, int) else \
            [d0 * 0.9, d0 * 1.1] if isinstance(d0, float) else []
        vals = [c for c in cands if universe.config_valid(name, {**req1, k: c})][:2]
        if not vals:
            continue
        subgrids.append({**required, k: vals})
    subgrids.append(dict(required))
    # every point of every sub-grid must be a configuration the real config model accepts
    subgrids = [g for g in subgrids if all(universe.config_valid(name, p_) for p_ in expected_points(g))]
    if not subgrids:
        return out
    rng.shuffle(subgrids)
    wd = tempfile.mkdtemp(prefix="c19l.", dir=os.environ.get("PVMON_WORKDIR"))
    spec = universe.make_spec(rng, kind="continuous", minmax=item["minmax"])
    spec["seed"] = None
    rid = f"c19l-{os.getpid()}"
    tasks.register_run(rid, spec)
    try:
        log = os.path.join(wd, "cfg.jsonl")
        task = tasks.build_task(spec, rid, extra_data={"cfglog": log})
        pre = None
        if item.get("preconfigured"):
            pc = {**req1, **{k: v[-1] for g in subgrids for k, v in g.items() if k in optional}}
            if universe.config_valid(name, pc):
                pre = Cfg(**pc)
        algo = globals()["Logged" + name](pre) if pre is not None else globals()["Logged" + name]()
        tuner = HyperTuner(algo, param_grid=json.loads(json.dumps(subgrids)))
        import contextlib, io
        with contextlib.redirect_stdout(io.StringIO()):
            tuner.execute(task, n_trials=item["n_trials"], n_jobs=2, mode="serial")
        points = expected_points(subgrids)
        out["points"] = len(points)
        want = collections.Counter()
        for p_ in points:
            want[json.dumps(canon(Cfg(**p_).model_dump()), sort_keys=True)] += item["n_trials"]
        calls = [json.loads(l)["config"] for l in open(log)] if os.path.exists(log) else []
        out["calls"] = len(calls)
        got = collections.Counter(json.dumps(c, sort_keys=True) for c in calls)
        if got != want:
            extra = [k for k in got if k not in want][:1]
            out["viol"].append({"key": {"component": "HyperTuner", "kind": "grid-point-run-with-other-parameters", "optimizer": name},
                                "detail": f"{name}: sub-grids {subgrids!r}: configurations actually run differ from Config(**point); "
                                          f"e.g. ran with {extra[0][:200] if extra else 'a wrong multiplicity'}"[:500]})
    except Exception as e:
        out["viol"].append({"key": {"component": "HyperTuner", "kind": "execute-exception", "optimizer": name},
                            "detail": f"{name} (logged): {type(e).__name__}: {e}"[:300]})
    finally:
        tasks.unregister_run(rid)
        shutil.rmtree(wd, ignore_errors=True)
    return out


REAL = ["ParticleSwarmOptimization", "GreyWolfOptimization", "WhalesOptimization", "HarmonySearchOptimization",
        "CuckooSearchOptimization", "BatOptimization"]


def work_real(item, opts):
    """real optimizers: best row of _df_fit must carry the optimal trial mean in the task's direction"""
    rng = random.Random(f"c19r/{item['seed']}")
    name = item["opt"]
    out = {"viol": [], "points": 0, "calls": 0}
    base = dict(universe.base_configs()[name])
    base["max_cycles"] = 3
    base["fitness_error"] = None
    grid = {k: [v] for k, v in base.items()}
    grid["population_size"] = [base["population_size"], base["population_size"] * 2]
    grid["max_cycles"] = [2, 4] if rng.random() < 0.5 else [3]
    spec = universe.make_spec(rng, kind="continuous", minmax=item["minmax"])
    spec["seed"] = None
    rid = f"c19r-{os.getpid()}"
    tasks.register_run(rid, spec)
    try:
        task = tasks.build_task(spec, rid)
        tuner = HyperTuner(env.optimizer_classes()[name](), param_grid=grid)
        import contextlib, io
        with contextlib.redirect_stdout(io.StringIO()):
            tuner.execute(task, n_trials=item["n_trials"], n_jobs=2, mode="serial")
        df = tuner._df_fit
        out["points"] = len(df)
        cols = [c for c in df.columns if str(c).startswith("trial_") and c not in ("trial_mean", "trial_std")]
        means = [float(np.mean([row[c] for c in cols])) for _, row in df.iterrows()]
        opt = min(means) if item["minmax"] == "min" else max(means)
        bp = tuner.best_parameters
        idx = [i for i, (_, row) in enumerate(df.iterrows()) if row["params"] == bp]
        if len(df) != len(list(ParameterGrid(grid))) or len(cols) != item["n_trials"]:
            out["viol"].append({"key": {"component": "HyperTuner", "kind": "grid-coverage", "optimizer": name},
                                "detail": f"{name}: {len(df)} rows x {len(cols)} trial columns for {len(list(ParameterGrid(grid)))} points x {item['n_trials']} trials"})
        elif not idx or not any(math.isclose(means[i], opt, rel_tol=1e-12, abs_tol=1e-12) for i in idx):
            out["viol"].append({"key": {"component": "HyperTuner", "kind": "best-not-optimal", "optimizer": name},
                                "detail": f"{name} {item['minmax']}: best_parameters {bp!r} has mean {[means[i] for i in idx]}, optimal mean {opt!r} of {means}"})
        elif not math.isclose(float(tuner.best_score), opt, rel_tol=1e-12, abs_tol=1e-12):
            out["viol"].append({"key": {"component": "HyperTuner", "kind": "best-score", "optimizer": name},
                                "detail": f"best_score {tuner.best_score!r} vs optimal mean {opt!r}"})
        r = tuner.resolve()
        if not isinstance(r, OptimizationResult):
            out["viol"].append({"key": {"component": "HyperTuner", "kind": "resolve", "optimizer": name}, "detail": "resolve() returned no result"})
    except Exception as e:
        out["viol"].append({"key": {"component": "HyperTuner", "kind": "execute-exception", "optimizer": name},
                            "detail": f"{name}: {type(e).__name__}: {e}"[:300]})
    finally:
        tasks.unregister_run(rid)
    return out


def work_laws(item, opts):
    bad = []
    n = 0
    for g in item["grids"]:
        n += 1
        for kind, d in grid_laws(g):
            bad.append({"key": {"component": "ParameterGrid", "kind": kind}, "detail": d[:400]})
    return {"n": n, "viol": bad[:20]}


def check(prop, tier, seed):
    rep = Report(prop, tier, seed)
    rng = random.Random(f"c19/{seed}")
    dicts = all_small_grids()
    grids = list(dicts)
    # lists of dicts: all pairs incl. the empty dict (exhaustive for 2 sub-grids over a reduced family) + random triples
    small = [d for d in dicts if len(d) <= 2 and all(len(v) <= 2 for v in d.values())]
    grids += [[a, b] for a in small for b in small]
    grids += [[rng.choice(dicts) for _ in range(3)] for _ in range(200 if tier == "quick" else 3000)]
    chunks = 16
    res = runner.run_parallel("pvmon.props.c19", "work_laws", [{"grids": grids[k::chunks]} for k in range(chunks)], {}, batch=1)
    n_laws = 0
    for r in res:
        if isinstance(r, Lost):
            rep.lost += 1
            continue
        n_laws += r["n"]
        for v in r["viol"]:
            rep.violation(v["key"], v["detail"], replay={"kind": "laws"})
    # tuner runs with the scripted optimizer
    n_tuner = 150 if tier == "quick" else 3000
    items = []
    tun_grids = [d for d in dicts if 1 <= math.prod(len(v) for v in d.values()) <= 9 and d] + [[a, b] for a in small[:6] for b in small[1:5]]
    for k in range(n_tuner):
        g = rng.choice(tun_grids)
        items.append({"seed": f"{seed}/{k}", "grid": g, "n_trials": rng.choice([1, 2, 2, 3, 3, 10, 12]), "minmax": rng.choice(["min", "max"]),
                      "style": rng.choice(["distinct", "distinct", "tied-means", "all-equal", "negative"]),
                      "n_jobs": rng.choice([1, 2, 3, 5]), "mode": rng.choice(["serial", "serial", "thread", "process"]),
                      "debug": rng.random() < 0.3,
                      "scale": random.Random(f"c19scale/{seed}/{k}").choice([1.0, 1.0, 1.0, 1e-13, 1e-300, 1e9])})
    res = runner.run_parallel("pvmon.props.c19", "work_tuner", items, {}, jobs=8, per_item_s=60)
    calls = pts = done = 0
    for it, r in zip(items, res):
        rep.evaluations += 1
        if isinstance(r, Lost):
            rep.lost += 1
            continue
        done += 1
        calls += r["calls"]
        pts += r["points"]
        rep.distinct.add(("tuner", it["seed"]))
        for v in r["viol"]:
            rep.violation(v["key"], v["detail"], replay={"kind": "tuner", "item": it})
    ritems = [{"seed": f"{seed}/{k}", "opt": REAL[k % len(REAL)], "minmax": ["min", "max"][(k // len(REAL)) % 2], "n_trials": rng.choice([2, 3])}
              for k in range(12 if tier == "quick" else 120)]
    res = runner.run_parallel("pvmon.props.c19", "work_real", ritems, {}, jobs=6, per_item_s=120)
    real_done = 0
    for it, r in zip(ritems, res):
        rep.evaluations += 1
        if isinstance(r, Lost):
            rep.lost += 1
            continue
        real_done += 1
        rep.distinct.add(("real", it["seed"]))
        for v in r["viol"]:
            rep.violation(v["key"], v["detail"], replay={"kind": "real", "item": it})
    litems = [{"seed": f"{seed}/{k}", "opt": LOGGED_BASES[k % len(LOGGED_BASES)], "minmax": ["min", "max"][k % 2], "n_trials": rng.choice([1, 2]),
               "preconfigured": k % 3 == 0} for k in range(len(LOGGED_BASES) * (1 if tier == "quick" else 8))]
    res = runner.run_parallel("pvmon.props.c19", "work_logged", litems, {}, jobs=6, per_item_s=120)
    logged_done = logged_calls = 0
    for it, r in zip(litems, res):
        rep.evaluations += 1
        if isinstance(r, Lost):
            rep.lost += 1
            continue
        logged_done += 1
        logged_calls += r["calls"]
        rep.distinct.add(("logged", it["seed"]))
        for v in r["viol"]:
            rep.violation(v["key"], v["detail"], replay={"kind": "logged", "item": it})
    rep.extra["tuner_runs_logged_real_optimizers"] = logged_done
    rep.extra["real_optimize_calls_logged"] = logged_calls
    rep.evaluations += n_laws
    rep.extra.update({"parameter_grids_checked": n_laws, "tuner_runs_scripted": done, "grid_points_evaluated": pts,
                      "scripted_optimize_calls_logged": calls, "tuner_runs_real_optimizers": real_done,
                      "exhaustive_part": f"ParameterGrid laws on all {len(dicts)} dict grids with 1-3 keys x 1-3 values (+ empty dict) and all {len(small) ** 2} two-element lists over the reduced family"})
    rep.sample({"grid": items[0]["grid"], "n_trials": items[0]["n_trials"], "minmax": items[0]["minmax"], "score_table": items[0]["style"]})
    rep.sample({"grid": items[1]["grid"], "n_trials": items[1]["n_trials"], "minmax": items[1]["minmax"], "score_table": items[1]["style"]})
    rep.rule = ("ParameterGrid: len / iteration / indexing / IndexError vs harness-computed Cartesian products; HyperTuner "
                "with a scripted optimizer that logs (parameters actually configured, cost) per optimize() call from the pool "
                "processes: every grid point logged exactly n_trials times, best_parameters has the optimal mean in the "
                "task's direction (ties: any), best_score == that mean, resolve() runs with best_parameters; score tables: "
                "distinct, tied means with different spreads, all equal, negative; + real optimizers judged on _df_fit")
    rep.require("parameter_grids_checked", n_laws, 500)
    rep.require("tuner_runs_scripted", done, int(0.9 * n_tuner))
    rep.require("tuner_runs_real_optimizers", real_done, 10)
    rep.require("tuner_runs_logged_real_optimizers", logged_done, 5)
    rep.require("scripted_optimize_calls_logged", calls, 5 * n_tuner)
    return rep.finish()


def replay(prop, data):
    rp = data["replay"]
    if rp.get("kind") == "tuner":
        r = work_tuner(rp["item"], {})
    elif rp.get("kind") == "real":
        r = work_real(rp["item"], {})
    elif rp.get("kind") == "logged":
        r = work_logged(rp["item"], {})
    else:
        r = work_laws({"grids": all_small_grids()}, {})
    for v in r["viol"]:
        print(f"[{prop}] replay: {v['detail']}")
    return bool(r["viol"])
