"""C07 - a seeded run is reproducible (DESIGN C07).
A: in-process run after the harness has consumed a random amount of every RNG; A': same process right after A;
B: the same case in a different worker process (other PYTHONHASHSEED, other batch neighbours, other RNG history).
Oracle: canonical results identical.  Secondary monitor H-rng: unseeded randomness drawn from a pyvolutionary frame."""
import hashlib
import os
import random
import sys

import numpy as np

from .. import env, runner, universe, tasks, hooks
from ..report import Report
from ..runner import Lost
from ..relational import optimize_plain, outcome_canon, dumps
from ..run import make_optimizer, canon

SEEDS = [0, 1, 42, 2 ** 31 - 1, 2 ** 32 - 1]
_PV_DIR = os.path.join(env.REPO, "pyvolutionary") + os.sep

# ---- H-rng ---------------------------------------------------------------------------------------------------
RNG_LOG = []
_RNG_ON = [False]
_INSTALLED = [False]


def _caller_in_pv(depth=2):
    f = sys._getframe(depth)
    for _ in range(3):
        if f is None:
            return None
        fn = f.f_code.co_filename
        if fn.startswith(_PV_DIR):
            return f"{os.path.basename(fn)}:{f.f_code.co_name}"
        f = f.f_back
    return None


def _wrap_unseeded(name, orig, is_unseeded=lambda a, k: True):
    def w(*a, **k):
        if _RNG_ON[0] and is_unseeded(a, k):
            who = _caller_in_pv()
            if who and len(RNG_LOG) < 20:
                RNG_LOG.append((name, who))
        return orig(*a, **k)
    w.__wrapped__ = orig
    return w


def install_rng_hooks():
    if _INSTALLED[0]:
        return
    _INSTALLED[0] = True
    inst = random._inst
    names = ["random", "randint", "randrange", "uniform", "choice", "choices", "shuffle", "sample", "gauss",
             "normalvariate", "getrandbits", "triangular", "betavariate", "expovariate", "randbytes"]
    for n in names:
        if hasattr(random, n):
            setattr(random, n, _wrap_unseeded("random." + n, getattr(random, n)))
    # references bound before patching (from random import x) inside the library
    for mname, mod in list(sys.modules.items()):
        if mname.startswith("pyvolutionary") and mod is not None:
            for k, v in list(vars(mod).items()):
                if getattr(v, "__self__", None) is inst and not hasattr(v, "__wrapped__"):
                    setattr(mod, k, _wrap_unseeded("random." + k, v))
    os.urandom = _wrap_unseeded("os.urandom", os.urandom)
    np.random.default_rng = _wrap_unseeded("np.random.default_rng", np.random.default_rng,
                                           lambda a, k: (not a or a[0] is None) and k.get("seed") is None)
    orig_seed = np.random.seed
    np.random.seed = _wrap_unseeded("np.random.seed(None)", orig_seed,
                                    lambda a, k: (not a or a[0] is None) and k.get("seed") is None)


def digest_outcome(oc):
    if oc["status"] != "ok":
        return {"status": oc["status"], "exc": oc.get("exc"), "func": oc.get("func")}
    r = oc["result"]
    return {"status": "ok", "gens": [hashlib.sha1(dumps(g).encode()).hexdigest()[:16] for g in r["generations"]],
            "rates": hashlib.sha1(dumps(r["rates"]).encode()).hexdigest()[:16],
            "best": hashlib.sha1(dumps(r["best"]).encode()).hexdigest()[:16],
            "first": dumps(r["generations"][0][0])[:160] if r["generations"] and r["generations"][0] else None}


def digest_difference(a, b):
    if a["status"] != b["status"]:
        return f"outcome {a['status']} {a.get('exc')} vs {b['status']} {b.get('exc')}"
    if a["status"] != "ok":
        return None if (a.get("exc"), a.get("func")) == (b.get("exc"), b.get("func")) else f"exception {a.get('exc')} at {a.get('func')} vs {b.get('exc')} at {b.get('func')}"
    if len(a["gens"]) != len(b["gens"]):
        return f"{len(a['gens'])} generations vs {len(b['gens'])}"
    for g, (x, y) in enumerate(zip(a["gens"], b["gens"])):
        if x != y:
            return f"generation {g} differs (first agent of generation 0: {a['first']} vs {b['first']})"
    if a["rates"] != b["rates"]:
        return "rates differ"
    if a["best"] != b["best"]:
        return "best_solution differs"
    return None


def one_run(case, twice=False):
    """twice: the SAME task object is solved a second time by a second fresh optimizer; the second outcome is returned"""
    opt, cfg = make_optimizer(case)
    rid = f"c07-{os.getpid()}-{id(case)}"
    tasks.register_run(rid, case["spec"])
    try:
        try:
            task = tasks.build_task(case["spec"], rid)
        except Exception as e:      # the documented Task(seed=<int>) must be constructible
            return {"status": "exc", "exc": type(e).__name__, "func": "Task(seed)"}
        if twice:
            optimize_plain(opt, task, mode="serial")
            opt, cfg = make_optimizer(case)
        st, payload = optimize_plain(opt, task, mode="serial")
        dg = digest_outcome(outcome_canon(st, payload))
        if st == "ok":
            # the decoded best solution is part of what a user sees of a run (label order must not depend on the process)
            try:
                dg["best"] += hashlib.sha1(dumps(canon(task.transform_solution(payload.best_solution.position))).encode()).hexdigest()[:8]
            except Exception as e:
                dg["best"] += "!" + type(e).__name__
    finally:
        tasks.unregister_run(rid)
    return dg


def make_case(seed, k, variant=None):
    rng = random.Random(f"c07/{seed}/{k}")
    names = universe.opt_names()
    opt = names[k % len(names)]
    cfg, klass = universe.make_config(rng, opt, perturbed=rng.random() < 0.3)
    if variant is not None:     # one optional parameter at a non-default value (non-default algorithm branches)
        opt, cfg = variant[0], dict(variant[1], max_cycles=rng.choice([2, 3, 5]), fitness_error=None)
        klass = "optional-variant"
    kind = rng.choice(["continuous", "continuous", "multiobjective", "mixed", "discrete", "binary", "permutation", "discrete-multi"])
    if variant is not None and (k // 1000) % 2 == 0:
        kind = "continuous"
    spec = universe.make_spec(rng, kind=kind)
    spec["seed"] = rng.choice(SEEDS) if rng.random() < 0.35 else rng.randint(0, 2 ** 32 - 1)
    return {"i": k, "opt": opt, "cfg": cfg, "cfg_class": klass, "spec": spec, "mode": "serial", "workers": None}


def work(item, opts):
    hooks.install()
    case = item["case"]
    if item["phase"] == "A":
        install_rng_hooks()
        rng = random.Random(f"perturb/{item['k']}/{os.getpid()}")
        np.random.seed(rng.randrange(2 ** 32))
        np.random.random(rng.randint(0, 1000))
        for _ in range(rng.randint(0, 50)):
            random.random()
        os.urandom(rng.randint(1, 8))
        del RNG_LOG[:]
        _RNG_ON[0] = True
        try:
            a = one_run(case)
        finally:
            _RNG_ON[0] = False
        leaks = list(RNG_LOG)
        a2 = one_run(case)
        a3 = one_run(case, twice=True) if item["k"] % 2 == 0 else a2      # equal task = the very same Task object, solved again
        # different seed: allowed to differ, never required to; counted for evidence only
        other = dict(case, spec=dict(case["spec"], seed=(case["spec"]["seed"] + 12345) % (2 ** 32)))
        o = one_run(other)
        return {"a": a, "same_process_diff": digest_difference(a, a2) or digest_difference(a, a3), "same_task_twice": item["k"] % 2 == 0, "leaks": leaks,
                "other_seed_differs": digest_difference(a, o) is not None, "cycles": len(a.get("gens", [])) - 1}
    np.random.random(3)
    return {"b": one_run(case)}


def check(prop, tier, seed):
    rep = Report(prop, tier, seed)
    per_opt = 4 if tier == "quick" else 80
    n = 84 * per_opt
    cases = [make_case(seed, k) for k in range(n)]
    for rep_ in range(2 if tier == "quick" else 8):
        cases += [make_case(seed, 100000 + 1000 * rep_ + j, variant=v) for j, v in enumerate(universe.all_optional_variants())]
    n = len(cases)
    items_a = [{"k": k, "phase": "A", "case": c} for k, c in enumerate(cases)]
    res_a = runner.run_parallel("pvmon.props.c07", "work", items_a, {})
    order = list(range(n))
    random.Random(f"c07-order/{seed}").shuffle(order)
    items_b = [{"k": k, "phase": "B", "case": cases[k]} for k in order]
    old = os.environ.get("PYTHONHASHSEED")
    os.environ["PYTHONHASHSEED"] = str(1 + seed % 1000)
    try:
        res_b = runner.run_parallel("pvmon.props.c07", "work", items_b, {})
    finally:
        if old is None:
            os.environ.pop("PYTHONHASHSEED", None)
        else:
            os.environ["PYTHONHASHSEED"] = old
    by_k = {k: r for k, r in zip(order, res_b)}
    opts_seen = set()
    pairs = 0
    other_differs = 0
    completed = 0
    for k, (case, ra) in enumerate(zip(cases, res_a)):
        rb = by_k[k]
        rep.evaluations += 1
        if isinstance(ra, Lost) or isinstance(rb, Lost):
            rep.lost += 1
            continue
        a, b = ra["a"], rb["b"]
        if a["status"] == "timeout" or b["status"] == "timeout":
            rep.lost += 1
            continue
        pairs += 1
        opts_seen.add(case["opt"])
        replay = {"kind": "c07", "case": case}
        if a["status"] == "ok":
            completed += 1
            if ra["cycles"] >= 1:
                rep.distinct.add(k)
            other_differs += bool(ra["other_seed_differs"])
        d = ra["same_process_diff"]
        if d:
            rep.violation({"optimizer": case["opt"], "kind": "same-process-rerun-differs"}, f"seed {case['spec']['seed']}: {d}", replay)
        d = digest_difference(a, b)
        if d:
            rep.violation({"optimizer": case["opt"], "kind": "fresh-process-run-differs"}, f"seed {case['spec']['seed']}: {d}", replay)
        for what, who in ra["leaks"]:
            rep.violation({"optimizer": case["opt"], "kind": "unseeded-randomness", "source": what, "site": who},
                          f"{what} drawn from {who} during a seeded serial run", replay)
        if a["status"] == "exc" and a.get("func") in ("Task(seed)", "abstract.py:optimize"):
            rep.violation({"optimizer": case["opt"], "kind": "seed-rejected"}, f"Task(seed={case['spec']['seed']}) -> {a}", replay)
        if len(rep.samples) < 3 and a["status"] == "ok":
            rep.sample({"optimizer": case["opt"], "seed": case["spec"]["seed"], "vars": case["spec"]["vars"],
                        "generations": len(a["gens"]), "digest_generation_0": a["gens"][0], "digest_B_generation_0": b["gens"][0]})
    rep.extra["cases_where_the_same_task_object_was_solved_twice"] = sum(1 for ra in res_a if not isinstance(ra, Lost) and ra.get("same_task_twice"))
    rep.extra.update({"pairs_compared": pairs, "completed_pairs": completed, "optimizers_observed": len(opts_seen),
                      "pairs_with_other_seed_that_differ": other_differs,
                      "seeds_used": "0, 1, 42, 2^31-1, 2^32-1 (35 %) and random 32-bit integers"})
    rep.rule = ("cases generated from VERIF_SEED: every optimizer x task kinds x min/max x integer seeds; A after RNG "
                "perturbation, A' same process (rebuilt task; for every second case also the same Task object solved a second time), B in another worker process with another PYTHONHASHSEED; oracle: "
                "digests of every generation/rates/best identical; non-trivial = completed run with >= 1 cycle")
    rep.require("optimizers_observed", len(opts_seen), 84)
    rep.require("completed_pairs", completed, int(0.6 * n))
    if rep.lost > 0.02 * n:
        rep.inconclusive.append(f"{rep.lost} pairs lost")
    if completed and other_differs == 0:
        rep.inconclusive.append("no pair of different seeds differed: the seed seems to be ignored, monitor cannot discriminate")
    return rep.finish()


def replay(prop, data):
    case = data["replay"]["case"]
    hooks.install()
    install_rng_hooks()
    np.random.random(17)
    _RNG_ON[0] = True
    a = one_run(case)
    _RNG_ON[0] = False
    res = runner.run_parallel("pvmon.props.c07", "work", [{"k": 0, "phase": "B", "case": case}], {})
    d = digest_difference(a, res[0]["b"]) if not isinstance(res[0], Lost) else None
    if d or RNG_LOG:
        print(f"[{prop}] replay: {d} {RNG_LOG[:3]}")
        return True
    return False
