"""C04 - optimize() stops exactly when the first configured criterion holds (DESIGN C04).
(1) scripted rate histories through the real optimize()/__error_check__/__should_stop__ vs a sequential reference
model; (2) observational: shape, rate formula and the model on the recorded rates of campaign runs of all optimizers."""
import contextlib
import io
import itertools
import random

import numpy as np

from .. import env, runner, universe, hooks
from ..report import Report
from ..runner import Lost
from ..run import stop_model
from . import common
from pyvolutionary import Task, ContinuousVariable, EarlyStopping
from pyvolutionary.abstract import OptimizationAbstract
from pyvolutionary.models import BaseOptimizationConfig

# letters: plateaus, decreases just below / above the min_delta values, an increase, exact zero, and 0.3000005 which lies
# 5e-7 above the fitness_error value 0.3 (inside any "isclose" tolerance, far outside rounding noise)
ALPHA = [0.5, 0.45, 0.4495, 0.3000005, 0.3, 0.6, 0.0, 0.2]
FES = [None, 0.3, 0.0]
ESS = [None, (0.001, 1), (0.001, 2), (0.001, 3), (0.06, 2), (0.0, 1), (0.0, 2)]
POP = 3


class Scripted(OptimizationAbstract):
    """the stop logic under test is inherited unmodified; only the per-cycle population fitness is scripted"""

    def __init__(self, config, script):
        super().__init__(config)
        self.script = script
        self.steps = 0

    def set_config_parameters(self, parameters):
        self._config = BaseOptimizationConfig(**parameters)

    def optimization_step(self):
        r = self.script[self.steps]
        self.steps += 1
        self._population = [a.model_copy(update={"fitness": 1.0 - r}) for a in self._population]


class _T(Task):
    def objective_function(self, x):
        return 1.0


_TASK = None


def task():
    global _TASK
    if _TASK is None:
        _TASK = _T(variables=[ContinuousVariable(name="x", lower_bound=0, upper_bound=1)])
    return _TASK


def harness_rate(r):
    return abs(1 - float(np.average([1.0 - r] * POP)))


def run_scripted(script, mc, fe, es):
    """-> None if held (or history too short to decide), else (kind, detail)"""
    rates_h = [harness_rate(r) for r in script]
    k = stop_model(rates_h, mc, fe, es)
    if k is None:
        return "skip", None
    # a history whose verdict flips when the rates move by a few ulp (|1 - mean fitness| computed in another summation
    # order) does not decide the property: skip it.  Exact zeros stay exact, so `rate == fitness_error == 0` is kept.
    for eps in (4e-15, -4e-15):
        if stop_model([r * (1 + eps) for r in rates_h], mc, fe, es) != k:
            return "fragile", None
    cfg = BaseOptimizationConfig(population_size=POP, max_cycles=mc, fitness_error=fe,
                                 early_stopping=None if es is None else EarlyStopping(min_delta=es[0], patience=es[1]))
    o = Scripted(cfg, list(script) + [0.97, 0.98, 0.99])
    try:
        with contextlib.redirect_stdout(io.StringIO()):
            r = o.optimize(task())
    except IndexError:
        return "later", f"script={script} max_cycles={mc} fitness_error={fe} early={es}: ran more than {k + 3} cycles, model stops at {k}"
    what = f"script={list(script)} max_cycles={mc} fitness_error={fe} early_stopping={es}"
    if o.steps < k:
        return "earlier", f"{what}: stopped after {o.steps} cycles, first criterion holds at cycle {k}"
    if o.steps > k:
        return "later", f"{what}: ran {o.steps} cycles, first criterion holds at cycle {k}"
    if len(r.evolution) != k + 1 or len(r.rates) != k:
        return "shape", f"{what}: {len(r.evolution)} generations / {len(r.rates)} rates for {k} cycles"
    if any(abs(a - b) > 1e-12 for a, b in zip(r.rates, rates_h)):
        return "rate-formula", f"{what}: rates {r.rates} vs |1-mean fitness| {rates_h[:k]}"
    return "ok", None


def work(item, opts):
    n = 0
    skipped = 0
    fragile = 0
    viol = []
    stops = {"max_cycles": 0, "fitness_error": 0, "early": 0}
    if "prefix" in item:
        L = item["L"]
        pre = item["prefix"]
        for tail in itertools.product(ALPHA, repeat=L - len(pre)):
            script = tuple(pre) + tail
            for mc in range(1, L + 1):
                for fe in FES:
                    for es in ESS:
                        kind, detail = run_scripted(script, mc, fe, es)
                        if kind in ("skip", "fragile"):
                            skipped += 1
                            fragile += kind == "fragile"
                            continue
                        n += 1
                        if kind != "ok" and len(viol) < 10:
                            viol.append({"key": {"component": "stop-rule", "kind": kind}, "detail": detail,
                                         "case": [list(script), mc, fe, es]})
    else:
        rng = random.Random(f"c04/{item['seed']}")
        for _ in range(item["n"]):
            L = rng.randint(1, 40)
            hi_ = rng.choice([None, None, None, 1e3, 1e6])        # some histories live far above 1 (fitness 1 + |cost|)
            r = rng.uniform(0.2, 0.9) if hi_ is None else rng.uniform(0.5, 2.0) * hi_
            script = []
            for _ in range(L):
                step = rng.choice([0.0, 0.0, -1e-5, -5e-4, -2e-3, -0.05, 0.01, 1e-5, -1e-4, -9.9e-5])
                r = min(0.99, max(0.0, r + step)) if hi_ is None else max(0.0, r + step * hi_)
                script.append(r)
            mc = rng.randint(1, L + 3)
            pick = script[rng.randrange(L)]
            fe = rng.choice([None, None, 0.1, pick, 0.0, max(0.0, pick - 1e-7), max(0.0, pick - 1e-9), 1e-10, -0.25, 5.0])
            es = rng.choice([None, (rng.choice([1e-4, 1e-3, 1e-2, 0.5, 0.0, -1e-3]), rng.randint(1, 6))])
            kind, detail = run_scripted(tuple(script), mc, fe, es)
            if kind in ("skip", "fragile"):
                skipped += 1
                fragile += kind == "fragile"
                continue
            n += 1
            if kind != "ok" and len(viol) < 10:
                viol.append({"key": {"component": "stop-rule", "kind": kind}, "detail": detail,
                             "case": [list(script), mc, fe, es]})
    return {"n": n, "skipped": skipped, "fragile": fragile, "viol": viol}


def check(prop, tier, seed):
    rep = Report(prop, tier, seed)
    Lmax = 4 if tier == "quick" else 5
    items = []
    for L in range(1, Lmax + 1):
        plen = min(L, 2 if L < 5 else 3)
        for pre in itertools.product(ALPHA, repeat=plen):
            items.append({"L": L, "prefix": list(pre)})
    n_rand = 10000 if tier == "quick" else 100000
    for k in range(32):
        items.append({"seed": f"{seed}/{k}", "n": n_rand // 32})
    res = runner.run_parallel("pvmon.props.c04", "work", items, {}, per_item_s=120)
    scripted = 0
    fragile = 0
    for it, r in zip(items, res):
        if isinstance(r, Lost):
            rep.lost += 1
            continue
        scripted += r["n"]
        fragile += r.get("fragile", 0)
        for v in r["viol"]:
            rep.violation(v["key"], v["detail"], replay={"kind": "scripted", "case": v["case"]})
    rep.evaluations += scripted
    for k in range(scripted):
        pass
    # observational part
    n = common.tier_n(tier, 1500, 20000)
    citems = common.choose_items(prop, tier, seed, n, mode_fraction=0.05, prior_fraction=0.15)
    pairs = common.run_campaign(rep, citems)
    counters, opts_seen = common.collect(rep, prop, pairs, lambda o: o["outcome"] == "ok" and o["stats"].get("steps", 0) >= 1)
    n_obs = len(rep.distinct)
    for k in range(scripted):
        rep.distinct.add(("s", k))
    rep.extra["scripted_histories_judged"] = scripted
    rep.extra["scripted_histories_skipped_as_rounding_fragile"] = fragile
    rep.extra["observational_runs_judged"] = n_obs
    rep.extra["exhaustive_part"] = (f"all rate histories of length <= {Lmax} over the alphabet {ALPHA} x max_cycles 1..L x "
                                    f"fitness_error {FES} x early_stopping {ESS}")
    rep.sample({"script": [0.5, 0.45, 0.4495, 0.449], "max_cycles": 4, "fitness_error": 0.449, "early_stopping": [0.001, 2],
                "model_stop_cycle": stop_model([harness_rate(r) for r in [0.5, 0.45, 0.4495, 0.449]], 4, 0.449, (0.001, 2))})
    for item, obs in pairs[:3]:
        rep.sample({"item": item, "optimizer": obs["opt"], "steps": obs["stats"].get("steps"), "generations": obs["stats"].get("generations")})
    rep.rule = ("(1) scripted optimizer (real optimize / __error_check__ / __should_stop__) driven through enumerated and "
                "random rate histories; oracle: sequential reference model fed with harness-recomputed rates; number of "
                "optimization_step invocations must equal the model's stop cycle; (2) campaign runs of all optimizers: "
                "steps == len(rates) == len(evolution)-1 <= max_cycles, rate formula, model on recorded rates; "
                "termination is judged as bounded progress (steps), never by wall-clock")
    rep.require("scripted_histories_judged", scripted, 50000)
    rep.require("observational_runs_judged", n_obs, 500 if n >= 1500 else 10)
    rep.require("optimizers_observed", len(opts_seen), 80 if n >= 1500 else 5)
    return rep.finish()


def replay(prop, data):
    rp = data["replay"]
    if rp.get("kind") == "scripted":
        script, mc, fe, es = rp["case"]
        kind, detail = run_scripted(tuple(script), mc, fe, tuple(es) if es else None)
        if kind not in ("ok", "skip", "fragile"):
            print(f"[{prop}] replay: {detail}")
            return True
        return False
    from . import simple
    return simple.replay(prop, data)
