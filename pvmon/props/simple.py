"""C01, C02, C03, C05, C10, C17: single-run oracles over campaign cases (DESIGN 2)."""
from .. import universe, tasks, run as runmod
from ..report import Report
from . import common

RULES = {
    "C01": "membership oracle (harness spec, not repo code) applied to every agent of every generation and to "
           "best_solution of each completed run",
    "C02": "cost recomputed by the harness's pure objective on the reported position (bit-exact; 1e-9 for weighted "
           "sums), fitness == documented function of the reported cost, transform_solution == harness decoding",
    "C03": "best_solution is an agent (position and cost) of the last generation and none is strictly better in the "
           "task's direction",
    "C05": "membership oracle applied to the argument of every objective_function call (in-process record for "
           "serial/thread, O_APPEND per-run file for pool worker processes)",
    "C10": "len of every generation: 1..population_size; == population_size except BeeColony (== size//2), Forest "
           "and ImperialistCompetitive (range only)",
    "C17": "best reported cost of generation k+1 never worse than generation k for the 68 structurally elitist "
           "optimizers (NaN pairs skipped and counted)",
}


def _select(prop):
    if prop == "C17":
        return lambda c: c["opt"] not in runmod.NON_ELITIST and c["cfg"]["max_cycles"] >= 2
    if prop == "C03":
        return None
    return None


STRESS = {"C01": 0.2, "C02": 0.2, "C03": 0.3, "C05": 0.5, "C10": 0.1, "C17": 0.3}
MODE_FRACTION = {"C01": 0.10, "C02": 0.10, "C03": 0.15, "C05": 0.15, "C10": 0.15, "C17": 0.05}


def check(prop, tier, seed):
    rep = Report(prop, tier, seed)
    n = common.tier_n(tier, 4000 if prop == "C05" else None)
    items = common.choose_items(prop, tier, seed, n, select=_select(prop), mode_fraction=MODE_FRACTION[prop],
                                stress_strict=(prop == "C05"),
                                prior_fraction=0.08, stress_fraction=STRESS[prop], mode_cap=(150 if tier == "quick" else 500) if prop == "C05" else 2000)
    # pinned pathological battery (constant objective, exact zeros, ties, optima on zero bounds) for every optimizer
    items += [{"b": k} for k in range(len(universe.battery()))]
    # pinned boundary battery: every optimizer with one parameter at the edge of what its config model accepts / a reversed range
    items += [{"v": k} for k in universe.boundary_indices(all_reps=prop in ("C10", "C17"))]
    if prop != "C05":
        # far-below-scale populations (whole-population ties); result-level oracles only
        items += [{"s": k} for k in range(len(universe.small_population_battery()))]
    if True:
        # variety of user-supplied objects (numpy / int / float32 objective values, huge / tiny values, wide / narrow / integer
        # bounds, string / tuple / None choices, 40 dimensions, an objective that scribbles on its argument, a user subclass
        # of ContinuousVariable with its own correct(), 0-d array objective values); audited (audit/types_v2.json)
        items += [{"y": k} for k in range(len(universe.types_battery()))]
    if prop in ("C02", "C03", "C10", "C17"):
        # non-finite objective values, audited (audit/inf_v2.json): a death penalty (+inf on min / -inf on max tasks outside a
        # feasible box) and an unbounded reward (-inf on min / +inf on max tasks on a target box).  Judged by the result-level
        # oracles of these four properties only: infinite costs drive several update rules into inf-inf arithmetic, whose NaN
        # positions are outside what C01 / C05 / C06 are checked on
        items += [{"n": k} for k in range(len(universe.battery_inf()))]
    if prop == "C10":
        # extended population sizes (odd, not multiples of group counts); audited separately (audit/ext_v2.json)
        import random as _r
        rr = _r.Random(f"c10ext/{tier}/{seed}")
        items += [{"e": e} for e in rr.sample(range(universe.EXT_SIZE), min(universe.EXT_SIZE, n // 3))]
    pairs = common.run_campaign(rep, items)

    def nontrivial(obs):
        if obs["outcome"] != "ok":
            return False
        st = obs["stats"]
        if prop == "C05":
            return st.get("calls", 0) > 0
        if prop == "C17":
            return st.get("c17_pairs", 0) > 0
        return st.get("agents", 0) > 0

    counters, opts_seen = common.collect(rep, prop, pairs, nontrivial)
    rep.rule = (f"cases = universe indices sampled by VERIF_SEED from the audited universe "
                f"({universe.UNIVERSE_VERSION}, {universe.UNIVERSE_SIZE} cases) + thread/process variants + pinned "
                f"probes of known findings; oracle: {RULES[prop]}; a case is non-trivial when its run completed and "
                f"the oracle was evaluated on at least one event")
    rep.extra["agents_checked"] = counters["sum_agents"]
    rep.extra["objective_calls_observed"] = counters["sum_calls"]
    rep.extra["generations_observed"] = counters["sum_generations"]
    rep.extra["elitist_generation_pairs"] = counters["sum_c17_pairs"]
    for item, obs in pairs[:400]:
        if nontrivial(obs) and len(rep.samples) < 4:
            if isinstance(item, dict) and ("b" in item or "n" in item or "v" in item or "s" in item or "y" in item):
                continue
            c = universe.case_ext(item["e"]) if isinstance(item, dict) and "e" in item else universe.case(item if isinstance(item, int) else item["i"])
            rep.sample({"item": item, "optimizer": obs["opt"], "task_kind": obs["kind"], "minmax": obs["minmax"],
                        "mode": obs["mode"], "config": c["cfg"], "vars": c["spec"]["vars"], "stats": obs["stats"]})
    min_opts = 80 if prop != "C17" else 60
    rep.require("optimizers_observed", len(opts_seen), min_opts if tier == "quick" or True else min_opts)
    rep.require("completed_runs", counters["ok"], 1000 if n >= 2000 else n // 3)
    if prop in ("C01", "C02", "C03", "C10"):
        rep.require("agents_checked", counters["sum_agents"], 50000 if n >= 2000 else 100)
    if prop == "C05":
        rep.require("objective_calls_observed", counters["sum_calls"], 100000 if n >= 2000 else 100)
    if prop == "C17":
        rep.require("elitist_generation_pairs", counters["sum_c17_pairs"], 2000 if n >= 2000 else 10)
    return rep.finish()


def replay(prop, data):
    from .. import campaign
    item = data["replay"]["item"]
    tries = 1 if (isinstance(item, int) or item.get("mode", "serial") == "serial") else 20
    for _ in range(tries):
        obs = campaign.work(item, {})
        vs = obs.get("viol", {}).get(prop, [])
        if vs:
            print(f"[{prop}] replay: {vs[0]['detail']}")
            return True
    return False
