"""C12 - maximising f is exactly minimising -f (DESIGN C12).
Run(max, f) and run(min, -f) with the same seed and configuration (stopping by cycle count): positions equal agent by
agent, costs exact negatives.  Ant Lion is excluded by the property itself (it weighs by Agent.fitness); a read monitor
on Agent.fitness re-confirms at run time that it does consult fitness."""
import copy
import json
import os
import random
import sys

from .. import env, runner, universe, tasks, hooks
from ..report import Report
from ..runner import Lost
from ..relational import optimize_plain
from ..run import make_optimizer, pos_eq, feq

EXCLUDED = {"AntLionOptimization"}
_PV_DIR = os.path.join(env.REPO, "pyvolutionary") + os.sep


def negate_spec(spec):
    s = json.loads(json.dumps(spec))
    for o in s["obj"]:
        p = o.setdefault("p", {})
        p["scale"] = -p.get("scale", 1.0)
        p["offset"] = -p.get("offset", 0.0)
    s["minmax"] = "min"
    return s


def make_item(seed, k, variant=None):
    rng = random.Random(f"c12/{seed}/{k}")
    names = [n for n in universe.opt_names()]
    opt = names[k % len(names)]
    cfg, klass = universe.make_config(rng, opt, perturbed=rng.random() < 0.3, stop=False,
                                      max_cycles=rng.choice([2, 3, 5, 8]))
    if variant is not None:
        opt, cfg = variant[0], dict(variant[1], max_cycles=rng.choice([2, 3, 5]), fitness_error=None)
    kind = rng.choice(["continuous", "continuous", "multiobjective", "mixed", "discrete", "permutation"])
    if variant is not None and (k // 1000) % 2 == 0:
        kind = "continuous"
    spec = universe.make_spec(rng, kind=kind, minmax="max")
    # a third of the pairs use an objective whose values are numpy float64 / float32 scalars, Python ints or 0-d arrays
    # (negation is exact for all of them)
    r2 = random.Random(f"c12ret/{seed}/{k}")
    if r2.random() < 0.33:
        spec["ret"] = r2.choice(["np64", "np32", "int", "np0d", "np0d_memo", "np0d_memo"])
    # a third of the pairs run both directions on ONE instance (max f, then min -f): equivalent for a library whose
    # runs do not depend on instance history, and reaches direction state cached on the instance
    # some max tasks get their direction assigned after construction as the plain string "max" (pydantic does not validate
    # assignment); on the current tree such a task behaves exactly like the enum-valued one
    return {"k": k, "opt": opt, "cfg": cfg, "spec": spec, "reuse": rng.random() < 0.34, "raw_max": rng.random() < 0.15}


def fitness_readers(case):
    """re-run with a read monitor on Agent.fitness restricted to frames in the optimizer's own module"""
    from pyvolutionary.models import Agent
    reads = []

    def ga(self, name):
        if name == "fitness":
            f = sys._getframe(1)
            fn = f.f_code.co_filename
            if fn.startswith(_PV_DIR) and os.sep + "pyvolutionary" + os.sep in fn and os.path.dirname(fn) != _PV_DIR.rstrip(os.sep):
                if len(reads) < 5:
                    reads.append(f"{os.path.basename(fn)}:{f.f_code.co_name}")
        return object.__getattribute__(self, name)
    Agent.__getattribute__ = ga
    try:
        opt, _ = make_optimizer(case)
        rid = f"c12m-{os.getpid()}"
        tasks.register_run(rid, case["spec"])
        optimize_plain(opt, tasks.build_task(case["spec"], rid), mode="serial")
        tasks.unregister_run(rid)
    finally:
        del Agent.__getattribute__
    return reads


def work(item, opts):
    hooks.install()
    case_max = {"opt": item["opt"], "cfg": item["cfg"], "spec": item["spec"]}
    case_min = {"opt": item["opt"], "cfg": item["cfg"], "spec": negate_spec(item["spec"])}
    out = {"k": item["k"], "opt": item["opt"], "viol": []}
    res = []
    shared = None
    order = (case_max, case_min) if item["k"] % 2 == 0 else (case_min, case_max)
    for c in order:
        if item.get("reuse"):
            if shared is None:
                shared, _ = make_optimizer(c)
            opt = shared
        else:
            opt, _ = make_optimizer(c)
        rid = f"c12-{os.getpid()}-{item['k']}-{c['spec']['minmax']}"
        tasks.register_run(rid, c["spec"])
        try:
            t_ = tasks.build_task(c["spec"], rid)
            if item.get("raw_max") and c["spec"]["minmax"] == "max":
                t_.minmax = "max"
            res.append(optimize_plain(opt, t_, mode="serial"))
        finally:
            tasks.unregister_run(rid)
    if order[0] is case_min:
        res.reverse()
    (sa, ra), (sb, rb) = res
    out["status"] = [sa, sb]
    if "timeout" in (sa, sb):
        out["skip"] = True
        return out
    d = None
    if sa != sb:
        d = f"max f: {sa} {ra if sa == 'exc' else ''}; min -f: {sb} {rb if sb == 'exc' else ''}"
    elif sa == "exc":
        if (ra["exc"], ra["func"]) != (rb["exc"], rb["func"]):
            d = f"max f raised {ra['exc']} in {ra['func']}; min -f raised {rb['exc']} in {rb['func']}"
    else:
        out["generations"] = len(ra.evolution)
        out["agents"] = 0
        if len(ra.evolution) != len(rb.evolution):
            d = f"{len(ra.evolution)} generations (max f) vs {len(rb.evolution)} (min -f)"
        else:
            for g, (ga_, gb_) in enumerate(zip(ra.evolution, rb.evolution)):
                if len(ga_.agents) != len(gb_.agents):
                    d = f"generation {g}: {len(ga_.agents)} vs {len(gb_.agents)} agents"
                    break
                for j, (x, y) in enumerate(zip(ga_.agents, gb_.agents)):
                    out["agents"] += 1
                    if not pos_eq(x.position, y.position):
                        d = f"generation {g} agent {j}: position {x.position!r} (max f) vs {y.position!r} (min -f)"
                        break
                    if not feq(x.cost, -y.cost):
                        d = f"generation {g} agent {j}: cost {x.cost!r} (max f) vs {y.cost!r} (min -f) - not exact negatives"
                        break
                if d:
                    break
            if not d:
                bx, by = ra.best_solution, rb.best_solution
                if not (pos_eq(bx.position, by.position) and feq(bx.cost, -by.cost)):
                    d = f"best_solution {bx.position!r}/{bx.cost!r} (max f) vs {by.position!r}/{by.cost!r} (min -f)"
    if item["opt"] in EXCLUDED:
        out["excluded"] = True
        out["differs"] = bool(d)
        out["fitness_reads"] = fitness_readers(case_max)
        return out
    if d:
        out["viol"].append({"key": {"optimizer": item["opt"], "kind": "max-min-duality"}, "detail": d})
    return out


def check(prop, tier, seed):
    rep = Report(prop, tier, seed)
    per_opt = 3 if tier == "quick" else 100
    items = [make_item(seed, k) for k in range(84 * per_opt)]
    for rep_ in range(2 if tier == "quick" else 8):
        items += [make_item(seed, 100000 + 1000 * rep_ + j, variant=v) for j, v in enumerate(universe.all_optional_variants())]
    res = runner.run_parallel("pvmon.props.c12", "work", items, {})
    opts_seen = set()
    agents = 0
    judged = 0
    excl = {"pairs": 0, "differ": 0, "fitness_read_sites": set()}
    for it, r in zip(items, res):
        rep.evaluations += 1
        if isinstance(r, Lost) or r.get("skip"):
            rep.lost += 1
            continue
        if r.get("excluded"):
            excl["pairs"] += 1
            excl["differ"] += bool(r.get("differs"))
            excl["fitness_read_sites"].update(r.get("fitness_reads", []))
            continue
        judged += 1
        opts_seen.add(r["opt"])
        agents += r.get("agents", 0)
        if r["status"] == ["ok", "ok"] and r.get("generations", 0) >= 2:
            rep.distinct.add(it["k"])
        for v in r["viol"]:
            rep.violation(v["key"], v["detail"], replay={"kind": "c12", "item": it})
        if len(rep.samples) < 3 and r["status"] == ["ok", "ok"]:
            rep.sample({"optimizer": r["opt"], "vars": it["spec"]["vars"], "objective": it["spec"]["obj"], "seed": it["spec"]["seed"],
                        "config": it["cfg"], "generations": r.get("generations"), "agents_compared": r.get("agents")})
    excl["fitness_read_sites"] = sorted(excl["fitness_read_sites"])
    rep.extra.update({"pairs_judged": judged, "optimizers_observed": len(opts_seen), "agents_compared": agents,
                      "excluded_by_property": {"AntLionOptimization": excl}})
    rep.rule = ("pairs run(max, f) / run(min, -f) with the same seed and config (fitness_error=None, no early stopping) "
                "for 83 optimizers x task kinds x asymmetric objectives; oracle: positions equal agent by agent, costs "
                "exact negatives, same outcome; non-trivial = both runs completed with >= 1 cycle")
    rep.require("optimizers_observed", len(opts_seen), 83)
    rep.require("pairs_judged", judged, int(0.9 * 83 * per_opt))
    rep.require("agents_compared", agents, 5000)
    if excl["pairs"] and not excl["fitness_read_sites"]:
        rep.inconclusive.append("AntLion is excluded because it reads Agent.fitness, but the read monitor saw no such read")
    return rep.finish()


def replay(prop, data):
    r = work(data["replay"]["item"], {})
    for v in r["viol"]:
        print(f"[{prop}] replay: {v['detail']}")
    return bool(r["viol"])
