"""C09 - optimize() does not modify the caller's configuration or task (DESIGN C09).
Canonical dumps (declared fields + private children, numpy -> lists) taken immediately before the call and after it
returns OR raises; plus provoked-exception cases and shared-configuration cases."""
import json
import os
import random

from .. import env, runner, universe, tasks, hooks
from ..report import Report
from ..runner import Lost
from ..relational import optimize_plain, outcome_canon, outcome_difference, dumps
from ..run import canon, diff_fields
from . import common


def provoked_case(seed, k):
    """valid configuration, task whose weight count does not match the objective count: optimize() raises from the
    first _init_agent, i.e. after before_initialization has run"""
    rng = random.Random(f"c09p/{seed}/{k}")
    names = universe.opt_names()
    opt = names[k % len(names)]
    cfg, klass = universe.make_config(rng, opt)
    if k % 7 == 5:
        # a seed outside numpy's 32-bit range: the call is rejected by np.random.seed - and must leave the task as it was
        spec = universe.make_spec(rng, kind=rng.choice(["continuous", "mixed"]))
        spec["seed"] = rng.choice([-1, -12345, 2 ** 32, 2 ** 32 + 5, 2 ** 40 + 7])
    elif k % 3 == 2:
        # EarlyStopping(patience=None) / (min_delta=None) pass the model's validators but make the stop rule raise
        # TypeError after the first cycle: an exception path in the middle of a run
        spec = universe.make_spec(rng, kind=rng.choice(["continuous", "mixed"]))
        cfg["early_stopping"] = rng.choice([{"patience": None, "min_delta": 1e-3}, {"patience": 2, "min_delta": None},
                                            {"patience": None, "min_delta": None}])
        cfg["max_cycles"] = max(2, cfg["max_cycles"])
    else:
        spec = universe.make_spec(rng, kind="multiobjective")
        spec["weights"] = spec["weights"] + [0.5] if rng.random() < 0.5 else spec["weights"][:-1] or [1.0, 1.0, 1.0, 1.0]
        if len(spec["weights"]) == len(spec["obj"]):
            spec["weights"] = spec["weights"] + [1.0]
    return {"i": f"p{k}", "opt": opt, "cfg": cfg, "cfg_class": klass, "spec": spec, "mode": rng.choice(["serial", "serial", "thread"]),
            "workers": 2}


def work_shared(item, opts):
    """one configuration object shared by two optimizers of the same class, used in turn"""
    hooks.install()
    name = item["opt"]
    cls = env.optimizer_classes()[name]
    Cfg = env.config_class(name)
    shared = Cfg(**item["cfg"])
    before = canon(shared, private=False)
    out = {"opt": name, "viol": [], "ok": 0}
    rid = f"c09s-{os.getpid()}-{item['k']}"
    res = []
    for j, spec in enumerate(item["specs"]):
        tasks.register_run(f"{rid}-{j}", spec)
        try:
            t = tasks.build_task(spec, f"{rid}-{j}")
            tb = canon(t, private=False)
            st, r = optimize_plain(cls(shared), t, mode="serial", workers=2)
            res.append((st, r))
            for f in diff_fields(tb, canon(t, private=False), "task."):
                out["viol"].append({"key": {"optimizer": name, "kind": "input-modified", "field": f}, "detail": f"shared-config run {j}: {f} changed"})
        finally:
            tasks.unregister_run(f"{rid}-{j}")
        after = canon(shared, private=False)
        for f in diff_fields(before, after, "config."):
            nm = f.split(".", 1)[1]
            out["viol"].append({"key": {"optimizer": name, "kind": "input-modified", "field": f},
                                "detail": f"shared configuration after run {j}: {f}: {dumps(before.get(nm))[:80]} -> {dumps(after.get(nm))[:80]}"})
        before = after
    # consequence: the second user of the shared object behaves like a user of a fresh equal configuration
    spec = item["specs"][-1]
    tasks.register_run(rid + "-f", spec)
    try:
        st_f, r_f = optimize_plain(cls(Cfg(**item["cfg"])), tasks.build_task(spec, rid + "-f"), mode="serial", workers=2)
    finally:
        tasks.unregister_run(rid + "-f")
    if "timeout" not in (st_f, res[-1][0]):
        out["ok"] = 1
        d = outcome_difference(outcome_canon(*res[-1]), outcome_canon(st_f, r_f))
        if d:
            out["viol"].append({"key": {"optimizer": name, "kind": "shared-config-run-differs"},
                                "detail": f"second optimizer sharing the configuration object vs fresh equal configuration: {d}"})
    return out


def check(prop, tier, seed):
    rep = Report(prop, tier, seed)
    n = common.tier_n(tier)
    items = common.choose_items(prop, tier, seed, n, mode_fraction=0.15)
    n_prov = 84 * (3 if tier == "quick" else 12)
    items += [provoked_case(seed, k) for k in range(n_prov)]
    items += [{"v": k} for k in universe.boundary_indices()]     # boundary configurations, reversed ranges
    pairs = common.run_campaign(rep, items)
    counters, opts_seen = common.collect(rep, prop, pairs, lambda o: o["outcome"] in ("ok", "exception") and o["stats"].get("c09_fields_compared", 0) > 0)
    raised = sum(1 for _, o in pairs if o["outcome"] == "exception")
    # shared configuration objects
    rng = random.Random(f"c09s/{seed}")
    names = universe.opt_names()
    sitems = []
    for k in range(84 * (1 if tier == "quick" else 8)):
        opt = names[k % 84]
        cfg, _ = universe.make_config(rng, opt, max_cycles=rng.choice([2, 3, 5]))
        sitems.append({"k": k, "opt": opt, "cfg": cfg, "specs": [universe.make_spec(rng, kind=rng.choice(["continuous", "mixed", "multiobjective"])) for _ in range(2)]})
    res = runner.run_parallel("pvmon.props.c09", "work_shared", sitems, {})
    shared_ok = 0
    for it, r in zip(sitems, res):
        rep.evaluations += 1
        if isinstance(r, Lost):
            rep.lost += 1
            continue
        shared_ok += r["ok"]
        if r["ok"]:
            rep.distinct.add(("shared", it["k"]))
        for v in r["viol"]:
            rep.violation(v["key"], v["detail"], replay={"kind": "shared", "item": it})
    rep.extra.update({"fields_compared": counters["sum_c09_fields_compared"], "runs_that_raised": raised,
                      "shared_config_sequences": shared_ok})
    for item, obs in pairs[:2]:
        if isinstance(item, dict) and "v" in item:
            continue
        c = universe.case(item if isinstance(item, int) else item["i"]) if not (isinstance(item, dict) and "opt" in item) else item
        rep.sample({"optimizer": obs["opt"], "config": c["cfg"], "vars": c["spec"]["vars"], "outcome": obs["outcome"],
                    "fields_compared": obs["stats"].get("c09_fields_compared")})
    rep.rule = ("campaign cases (all modes) + provoked-exception cases (weight/objective count mismatch: raises after "
                "before_initialization) + shared-configuration sequences; oracle: canonical dump of config and task "
                "(declared fields, private children, data) identical before/after, also on the exception path; "
                "non-trivial = call returned or raised and the dumps were compared")
    rep.require("optimizers_observed", len(opts_seen), 80)
    rep.require("runs_that_raised", raised, 84)
    rep.require("shared_config_sequences", shared_ok, 70)
    rep.require("fields_compared", counters["sum_c09_fields_compared"], 10000)
    return rep.finish()


def replay(prop, data):
    rp = data["replay"]
    if rp.get("kind") == "shared":
        r = work_shared(rp["item"], {})
        for v in r["viol"]:
            print(f"[{prop}] replay: {v['detail']}")
        return bool(r["viol"])
    from . import simple
    return simple.replay(prop, data)
