"""C14 - a task's search-space description is consistent with its variables (DESIGN C14).
The real Task is built from generated variable lists; oracles use the harness's spec and *fresh* variable objects
(never task.get_variables())."""
import itertools
import json
import math
import random

import numpy as np

from .. import env, runner, tasks
from ..report import Report
from ..runner import Lost
from ..run import canon
from pyvolutionary import (ContinuousVariable, DiscreteVariable, PermutationVariable)

EPS2 = 2 - np.finfo(float).eps

PARAMS = {
    "c": [["c", -3.0, 5.0], ["c", 0.0, 1e-3]],
    "cm": [["cm", [-1.0, 0.0, 10.0], [1.0, 5.0, 11.0]], ["cm", [2.0], [3.0]]],          # incl. size 1
    "mo": [["mo", [-5.0, -5.0], [5.0, 0.0]], ["mo", [0.5], [0.75]]],                      # incl. size 1
    "d": [["d", [1, 5, 9, 11]], ["d", ["x"]], ["d", [[64], [64, 32], [], [128, 64, 32]]]],     # scalar, single, list-valued choices
    "dm": [["dm", [[1, 5, 9], [0.5, 2.5], [3, 4, 6, 8]]], ["dm", [["u", "v"], [7, 8, 9]]], ["dm", [[4, 2]]]],  # 3, 2, 1 children
    "b": [["b", 3], ["b", 1]],
}
PERMS = [["p", ["a", "b", "c", "d"]], ["p", [3, "x", 1.5]], ["p", ["only"]], ["p", [10, 20, 30, 40, 50, 60]]]


def fresh_flat(spec_vars):
    """fresh real scalar variables per coordinate, built by the harness from the spec"""
    out = []
    for kind in tasks.flat_vars(spec_vars):
        if kind[0] == "c":
            out.append(ContinuousVariable(name="f", lower_bound=kind[1], upper_bound=kind[2]))
        elif kind[0] == "d":
            out.append(DiscreteVariable(name="f", choices=kind[1]))
        else:
            out.append(None)
    return out


def owner_bounds(spec_vars):
    """per coordinate: list of acceptable (lb, ub) pairs"""
    out = []
    for v in spec_vars:
        k = v[0]
        if k == "c":
            out.append([(v[1], v[2])])
        elif k in ("cm", "mo"):
            out.extend([(a, b)] for a, b in zip(v[1], v[2]))
        elif k == "d":
            out.append([(0, len(v[1]) - 1)])
        elif k == "dm":
            out.extend([(0, len(ch) - 1)] for ch in v[1])
        elif k == "b":
            out.extend([(0, 1), (0, EPS2)] for _ in range(v[1]))
    return out


def rand_position(rng, flat):
    pos = []
    for v in flat:
        if v[0] == "c":
            w = v[2] - v[1]
            pos.append(rng.choice([v[1], v[2], v[1] + w * rng.random(), v[1] - w, v[2] + 3 * w, v[1] + w * rng.random()]))
        elif v[0] == "d":
            n = len(v[1])
            pos.append(rng.choice([0, n - 1, rng.randrange(n), -1, n, n - 0.5, rng.uniform(-1, n + 1), rng.randrange(n)]))
        else:
            n = v[1]
            pos.append(rng.choice([rng.sample(range(n), n), [rng.uniform(0, n) for _ in range(n)],
                                   [rng.uniform(-3 * n, 3 * n) for _ in range(n)], [rng.choice([-7.5, -2.0, n + 1.0, n + 9.0, 0.5]) + 0.01 * k for k in range(n)][::-1],
                                   [-(k + 1.0) for k in range(n)], [n + 5.0 - k for k in range(n)]]))
    return pos


def check_task(bag, rng, spec_vars, n_pos):
    label = "+".join(v[0] + (str(len(v[1])) if v[0] in ("cm", "mo", "dm") else (str(v[1]) if v[0] == "b" else "")) for v in spec_vars)
    key0 = {"component": "Task", "vars": label}

    def bad(law, detail):
        bag["n"] += 0
        if len(bag["viol"]) < 40:
            bag["viol"].append({"key": {"component": "Task", "law": law, "vars": label}, "detail": detail,
                                "spec_vars": spec_vars})

    spec = {"vars": spec_vars, "obj": [{"fam": "sphere", "p": {}}], "weights": None, "minmax": "min", "seed": None}
    try:
        task = tasks.build_task(spec, rid=f"c14-{id(bag)}")
    except Exception as e:
        bad("construction", f"Task({spec_vars!r}) raised {e!r}")
        return
    flat = tasks.flat_vars(spec_vars)
    sizes = tasks.var_sizes(spec_vars)
    dim = sum(sizes)
    bag["n"] += 1
    if task.space_dimension != dim:
        bad("dimension", f"space_dimension = {task.space_dimension}, sum of sizes = {dim}")
    # a task rebuilt from another task's fields with other variables (a natural way to derive a sibling problem) describes
    # ITS variables: the dimension is recomputed, not inherited
    bag["n"] += 1
    try:
        other_vars = [["c", -1.0, 1.0], ["b", 2]] if dim != 3 else [["cm", [0.0, 0.0], [1.0, 1.0]]]
        fields = {k: getattr(task, k) for k in type(task).model_fields}
        fields["variables"] = tasks.build_variables(other_vars)
        sib = type(task)(**fields)
        if sib.space_dimension != sum(tasks.var_sizes(other_vars)) or len(sib.empty_solution()) != sib.space_dimension:
            bad("dimension", f"task rebuilt from the fields of a {dim}-dimensional task with variables {other_vars!r}: space_dimension = "
                             f"{sib.space_dimension}, empty_solution has {len(sib.empty_solution())} coordinates")
    except Exception as ex:
        bad("dimension", f"rebuilding a task from another task's fields raised {type(ex).__name__}: {ex}")
    is_perm_only = [v[0] for v in spec_vars] == ["p"]
    # ---- bounds
    bag["n"] += 1
    try:
        lb, ub = task.get_bounds()
        if is_perm_only:
            n = len(spec_vars[0][1])
            okb = len(lb) == 1 and len(ub) == 1 and len(lb[0]) == n and len(ub[0]) == n and all(a <= b for a, b in zip(lb[0], ub[0]))
            own = task.variables[0].get_bounds()
            okb = okb and list(lb[0]) == list(own[0]) and list(ub[0]) == list(own[1])
            if not okb:
                bad("bounds", f"single permutation variable of {n} items: get_bounds() = {lb!r}, {ub!r}")
        else:
            want = owner_bounds(spec_vars)
            # "equal to that coordinate's own variable bounds": also accept whatever a fresh, identical variable reports
            for i_, fv_ in enumerate(fresh_flat(spec_vars)):
                if fv_ is not None:
                    try:
                        a_, b_ = fv_.get_bounds()
                        want[i_] = list(want[i_]) + [(a_, b_)]
                    except Exception:
                        pass
            if len(lb) != dim or len(ub) != dim:
                bad("bounds", f"get_bounds() has {len(lb)}/{len(ub)} entries for dimension {dim}")
            else:
                for i in range(dim):
                    a, b = float(lb[i]), float(ub[i])
                    if not (a <= b):
                        bad("bounds", f"coordinate {i}: lower {a!r} > upper {b!r}")
                        break
                    if not any(a == wa and b == wb for wa, wb in want[i]):
                        bad("bounds", f"coordinate {i}: get_bounds gives ({a!r}, {b!r}), its variable has {want[i]!r}")
                        break
    except Exception as e:
        bad("bounds", f"get_bounds() raised {type(e).__name__}: {e}")
    # ---- the arrays handed out belong to the caller (AntLion divides them in place): whatever the caller does with them, the
    # next call still describes the variables
    bag["n"] += 1
    try:
        l1, u1 = task.get_bounds()
        snap = json.dumps(canon([np.asarray(l1).tolist(), np.asarray(u1).tolist()]))
        for arr in (l1, u1):
            if isinstance(arr, np.ndarray):
                try:
                    arr /= 7.0
                except TypeError:       # integer-typed bounds: in-place true division is refused, overwrite instead
                    arr[...] = 0
            elif isinstance(arr, list):
                arr[:] = [0] * len(arr)
        l2, u2 = task.get_bounds()
        if json.dumps(canon([np.asarray(l2).tolist(), np.asarray(u2).tolist()])) != snap:
            bad("bounds", f"after the caller modified the arrays returned by an earlier get_bounds() call, get_bounds() = {l2!r}, {u2!r}")
    except Exception as e:
        bad("bounds", f"get_bounds() / in-place use of its result raised {type(e).__name__}: {e}")
    # ---- consequences of a consistent description: derived helpers agree with the dimension and the bounds
    if not is_perm_only:
        bag["n"] += 1
        try:
            np.random.seed(rng.randrange(2 ** 32))
            rs = task.random_solution()
            if len(rs) != dim:
                bad("random-solution", f"random_solution() has {len(rs)} coordinates, dimension {dim}")
            e = task.empty_solution()
            if not task.is_valid_solution(e):
                bad("random-solution-inside-bounds", f"empty_solution() = {e!r} is outside get_bounds() = {task.get_bounds()!r}")
            bw = task.bandwidth()
            lb2, ub2 = task.get_bounds()
            if len(bw) != dim or any(float(w) < 0 for w in bw) or any(float(w) != float(b) - float(a) for w, a, b in zip(bw, lb2, ub2)):
                bad("bandwidth", f"bandwidth() = {bw!r} for bounds {lb2!r}, {ub2!r}")
        except Exception as ex:
            bad("random-solution", f"random_solution / is_valid_solution / bandwidth raised {type(ex).__name__}: {ex}")
    # ---- random / corrected solutions
    fresh = fresh_flat(spec_vars)
    np.random.seed(rng.randrange(2 ** 32))
    for t in range(n_pos):
        bag["n"] += 1
        try:
            e = task.empty_solution()
            if len(e) != dim:
                bad("empty-solution", f"empty_solution() has {len(e)} coordinates, dimension {dim}")
            elif tasks.member(flat, tasks._jsonable(e) if False else e) is not None and tasks.member(flat, [x.item() if isinstance(x, np.generic) else x for x in e]) is not None:
                bad("empty-solution", f"empty_solution() = {e!r}: {tasks.member(flat, e)}")
            ini = task.initial_solution()
            if len(ini) != dim or tasks.member(flat, ini) is not None:
                bad("initial-solution", f"initial_solution() = {ini!r}: {tasks.member(flat, ini)}")
        except Exception as ex:
            bad("empty-solution", f"empty/initial_solution raised {type(ex).__name__}: {ex}")
        x = rand_position(rng, flat)
        if t % 2 == 1:      # every coordinate inside its bounds but not yet corrected (fractional indexes, random keys)
            x = []
            for v in flat:
                if v[0] == "c":
                    x.append(v[1] + (v[2] - v[1]) * rng.random())
                elif v[0] == "d":
                    n = len(v[1])
                    x.append(rng.choice([rng.uniform(0, n - 1), float(rng.randrange(n)), n - 1 - 1e-9 if n > 1 else 0.0, 0.5 if n > 1 else 0.0]))
                else:
                    x.append([rng.uniform(0, v[1] - 1) for _ in range(v[1])])
        for arg, how in ((x, "list"), (np.array(x, dtype=float) if not any(v[0] == "p" for v in flat) else None, "ndarray")):
            if arg is None:
                continue
            bag["n"] += 1
            try:
                c = task.correct_solution(arg) if how == "list" else task.initial_solution(arg)
                if len(c) != dim:
                    bad("correct-solution", f"correct_solution({x!r}) has {len(c)} coordinates, dimension {dim}")
                    continue
                for i, (ci, fv) in enumerate(zip(c, fresh)):
                    if fv is None:
                        n = flat[i][1]
                        want = PermutationVariable(name="f", items=list(range(n))).correct(x[i])
                    else:
                        want = fv.correct(x[i])
                    if not (ci == want and type(ci) is type(want)):
                        bad("correct-solution", f"coordinate {i} of correct_solution({x!r}) = {ci!r}; its variable's rule gives {want!r}")
                        break
                if tasks.member(flat, c) is not None:
                    bad("correct-solution", f"correct_solution({x!r}) = {c!r}: {tasks.member(flat, c)}")
            except Exception as ex:
                bad("correct-solution", f"correct_solution({x!r}) [{how}] raised {type(ex).__name__}: {ex}")
        # ---- transform_solution on raw (uncorrected) permutation keys of every numeric type: same decoding as the ranks
        if is_perm_only:
            n_ = flat[0][1]
            for raw in ([rng.randrange(100) for _ in range(n_)], [float(rng.randrange(100)) for _ in range(n_)],
                        [rng.uniform(-50, 50) for _ in range(n_)], list(np.array([rng.randrange(1000) for _ in range(n_)]))):
                if len(set(raw)) != n_:
                    continue
                bag["n"] += 1
                try:
                    ranks = PermutationVariable(name="f", items=list(range(n_))).correct(raw)
                    labels_ = list(task.variables[0].decode(list(range(n_))))
                    got = task.transform_solution([raw])
                    want = {"v0": [labels_[int(e)] for e in ranks]}
                    if json.dumps(canon(got), sort_keys=True) != json.dumps(canon(want), sort_keys=True):
                        bad("transform-values", f"transform_solution([{raw!r}]) = {got!r}; decoding the ranks {ranks!r} gives {want!r}")
                except Exception as ex:
                    bad("transform-values", f"transform_solution on raw keys {raw!r} raised {type(ex).__name__}: {ex}")
        # ---- transform_solution on a member position
        bag["n"] += 1
        try:
            m = [fv.correct(xi) if fv is not None else PermutationVariable(name="f", items=list(range(flat[i][1]))).correct(xi)
                 for i, (fv, xi) in enumerate(zip(fresh, x))]
            got = task.transform_solution(m)
            labels = None
            if any(v[0] == "p" for v in spec_vars):
                labels = {f"v{j}": list(task.variables[j].decode(list(range(len(v[1]))))) for j, v in enumerate(spec_vars) if v[0] == "p"}
            want = tasks.decode(spec_vars, m, labels)
            for j_, v_ in enumerate(spec_vars):
                # whatever order the labels are kept in, a decoded permutation consists of the DECLARED items themselves
                if v_[0] == "p" and sorted((type(e).__name__, repr(e)) for e in got.get(f"v{j_}", [])) != sorted((type(e).__name__, repr(e)) for e in v_[1]):
                    bad("transform-values", f"transform_solution({m!r})[v{j_}] = {got.get(f'v{j_}')!r} is not a rearrangement of the declared items {v_[1]!r}")
            if list(got.keys()) != list(want.keys()):
                bad("transform-keys", f"transform_solution keys {list(got.keys())!r}, declared variables {list(want.keys())!r}")
            elif json.dumps(canon(got), sort_keys=True) != json.dumps(canon(want), sort_keys=True):
                bad("transform-values", f"transform_solution({m!r}) = {got!r}, decoding of each slice gives {want!r}")
        except Exception as ex:
            bad("transform-values", f"transform_solution raised {type(ex).__name__}: {ex} for vars {label}")


def all_lists(max_len, params_per_type):
    types = ["c", "cm", "mo", "d", "dm", "b"]
    options = [p for t in types for p in PARAMS[t][:params_per_type.get(t, 3)]]
    for L in range(1, max_len + 1):
        for combo in itertools.product(options, repeat=L):
            yield [list(map(lambda z: z, v)) for v in combo]


def work(item, opts):
    rng = random.Random(f"c14/{item['seed']}")
    bag = {"n": 0, "viol": [], "tasks": 0, "labels": set()}
    lists = item.get("lists") or []
    for spec_vars in lists:
        check_task(bag, rng, spec_vars, item.get("n_pos", 2))
        bag["tasks"] += 1
    for _ in range(item.get("n_rand", 0)):
        L = rng.randint(1, 6)
        spec_vars = []
        for _ in range(L):
            t = rng.choice(["c", "cm", "mo", "d", "dm", "b"])
            if t == "c":
                a = rng.choice([-1e3, -1.0, 0.0, 2.5]); spec_vars.append(["c", a, a + rng.choice([1e-3, 1.0, 50.0])])
            elif t in ("cm", "mo"):
                n = rng.randint(1, 4); lbs = [rng.choice([-10.0, 0.0, 3.0]) for _ in range(n)]
                spec_vars.append([t, lbs, [x + rng.choice([0.5, 2.0, 1e4]) for x in lbs]])
            elif t == "d":
                spec_vars.append(["d", rng.sample([1, 5, 9, 11, "a", "b", 2.5, -3], rng.randint(1, 6))])
            elif t == "dm":
                spec_vars.append(["dm", [rng.sample([1, 5, 9, 11, "a", "b", 2.5, -3], rng.randint(1, 5)) for _ in range(rng.randint(1, 4))]])
            else:
                spec_vars.append(["b", rng.randint(1, 5)])
        check_task(bag, rng, spec_vars, item.get("n_pos", 2))
        bag["tasks"] += 1
    for spec_vars in item.get("perms", []):
        check_task(bag, rng, [spec_vars], item.get("n_pos", 2) + 2)
        bag["tasks"] += 1
    return {"n": bag["n"], "tasks": bag["tasks"], "viol": bag["viol"]}


def check(prop, tier, seed):
    rep = Report(prop, tier, seed)
    max_len = 3
    lists = list(all_lists(max_len, {}))
    rng = random.Random(f"c14/{seed}")
    chunks = 32
    items = [{"seed": f"{seed}/{k}", "lists": lists[k::chunks], "n_pos": 2 if tier == "quick" else 6,
              "n_rand": 20 if tier == "quick" else 3000, "perms": PERMS if k == 0 else []} for k in range(chunks)]
    res = runner.run_parallel("pvmon.props.c14", "work", items, {}, batch=1)
    n_tasks = 0
    for it, r in zip(items, res):
        if isinstance(r, Lost):
            rep.lost += 1
            continue
        rep.evaluations += r["n"]
        n_tasks += r["tasks"]
        for v in r["viol"]:
            rep.violation(v["key"], v["detail"], replay={"kind": "c14", "spec_vars": v["spec_vars"]})
    for k in range(n_tasks):
        rep.distinct.add(k)
    rep.exhaustive = None
    rep.extra["tasks_built"] = n_tasks
    rep.extra["exhaustive_part"] = (f"all {len(lists)} ordered variable lists of length <= {max_len} over 13 "
                                    f"parameterisations of the 6 non-permutation types (incl. size-1 multi-variables "
                                    f"and discrete-multi with 1, 2 and 3 children) + {len(PERMS)} single permutation tasks")
    rep.sample({"variable_list": lists[len(lists) // 2], "checked": ["dimension", "bounds", "empty/initial solution",
                                                                      "correct_solution (list and ndarray)", "transform_solution"]})
    rep.sample({"variable_list": [PERMS[1]]})
    rep.rule = ("real Task built from each variable list; laws checked against the harness's spec and fresh variable "
                "objects; positions: in range, on bounds, far outside, fractional indexes; binary coordinates accept "
                "(0,1) or (0,2-eps) bounds; permutation variables only as the single variable; distinct = tasks built")
    rep.require("tasks_built", n_tasks, 2000)
    if rep.lost:
        rep.inconclusive.append(f"{rep.lost} chunks lost")
    return rep.finish()


def replay(prop, data):
    bag = {"n": 0, "viol": [], "tasks": 0}
    check_task(bag, random.Random(1), data["replay"]["spec_vars"], 6)
    for v in bag["viol"]:
        print(f"[{prop}] replay: {v['detail']}")
    return bool(bag["viol"])
