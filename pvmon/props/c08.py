"""C08 - a run does not depend on the optimizer instance's history (DESIGN C08).
Oracle 1: result of the call on a used instance == result on a fresh instance (same seeded task, equal config).
Oracle 2 (invariant at a hook, H-attr): a field whose value differs from a fresh instance's and that is READ before it
is written during the later call is state leaking from the earlier run."""
import json
import os
import random

import numpy as np

from .. import env, runner, universe, tasks, hooks
from ..report import Report
from ..runner import Lost
from ..relational import optimize_plain, outcome_canon, outcome_difference, dumps
from ..run import canon

IGNORED_FIELDS = {"_mode", "_workers", "_debug"}   # deliberately sticky / not state (always passed explicitly)


def build(case_spec, rid):
    tasks.register_run(rid, case_spec)
    ra = case_spec.get("_raise_after")
    return tasks.build_task(case_spec, rid, extra_data={"raise_after": ra} if ra is not None else None)


def make_item(seed, k, variant=None):
    rng = random.Random(f"c08/{seed}/{k}")
    names = universe.opt_names()
    opt = names[k % len(names)]
    stopkind = rng.choice(["max_cycles", "fitness_error", "early"])
    cfg, klass = universe.make_config(rng, opt, perturbed=rng.random() < 0.2, stop=False,
                                      max_cycles=rng.choice([2, 3, 5, 8]))
    if variant is not None:
        opt, cfg = variant[0], dict(variant[1], max_cycles=rng.choice([2, 3, 5]), fitness_error=None)
    if stopkind == "fitness_error":
        cfg["fitness_error"] = rng.choice([0.5, 0.9, 0.05])
    elif stopkind == "early":
        cfg["early_stopping"] = {"patience": rng.choice([1, 2]), "min_delta": rng.choice([0.5, 1e-2])}
    kinds = ["continuous", "continuous", "multiobjective", "mixed", "discrete", "binary"]
    final = universe.make_spec(rng, kind=rng.choice(kinds))
    n_earlier = rng.choice([1, 1, 2])
    earlier = []
    for _ in range(n_earlier):
        if rng.random() < 0.5:
            e = json.loads(json.dumps(final))
            e["seed"] = rng.randint(0, 2 ** 32 - 1)
        else:
            e = universe.make_spec(rng, kind=rng.choice(kinds))
        if rng.random() < 0.25:      # this earlier call aborts in the middle of the run (the objective raises after a budget)
            e["_raise_after"] = int(cfg["population_size"] * rng.choice([1.5, 2.5, 4.5]))
        earlier.append(e)
    same_task = False
    if random.Random(f"c08same/{seed}/{k}").random() < 0.2:
        # the judged call on the used instance solves the very Task OBJECT of its last earlier call again
        e = json.loads(json.dumps(final))
        earlier[-1] = e
        same_task = True
    cfg0 = None
    if rng.random() < 0.3:      # the earlier runs used another configuration; set_config_parameters(cfg) precedes the judged call
        c0, _ = universe.make_config(rng, opt, perturbed=True, max_cycles=rng.choice([2, 4, 6]))
        if c0 != cfg:
            cfg0 = c0
    return {"k": k, "opt": opt, "cfg": cfg, "cfg0": cfg0, "final": final, "earlier": earlier, "stopkind": stopkind, "same_task": same_task}


def amplify(item, cls, Cfg, rid):
    """after a stale read without visible effect: the same history followed by other judged calls (more cycles, no early stop,
    other tasks and directions); -> description of the first used-vs-fresh difference, or None"""
    rng = random.Random(f"c08amp/{item['k']}")
    kinds = ["continuous", "continuous", "multiobjective", "mixed", "discrete", "binary"]
    cfg_l = dict(item["cfg"], max_cycles=max(12, int(item["cfg"].get("max_cycles") or 0)), fitness_error=None, early_stopping=None)
    widths = [1e-7, 1e-6, 1e-5, 1e-3, 1.0, 1e3, 1e6, 1e-6, 1e-7, 1e-4]
    for j in range(24):
        if j < 2:
            final = json.loads(json.dumps(item["final"]))
        elif j % 2 == 0:
            # left-over thresholds and step sizes are scale-sensitive: continuous tasks on boxes from 1e-7 to 1e6 wide
            w = widths[(j // 2) % len(widths)]
            c0 = rng.choice([0.0, -w / 2, 5.0])
            n_ = rng.choice([2, 3])
            final = {"vars": [["cm", [c0] * n_, [c0 + w] * n_]], "obj": [{"fam": rng.choice(["sphere", "abs", "plateau"]), "p": {"shift": c0 + w / 3}}],
                     "weights": None, "minmax": rng.choice(["min", "max"])}
        else:
            final = universe.make_spec(rng, kind=rng.choice(kinds), minmax=rng.choice(["min", "max"]))
        final["seed"] = rng.randint(0, 2 ** 32 - 1)
        final.pop("_raise_after", None)
        # left-over state may also feed the stop logic: budgets without / with early stopping (patience 3 and 5) / fitness_error
        cfg_j = [cfg_l, item["cfg"],
                 dict(cfg_l, early_stopping={"patience": 3, "min_delta": 1e-3}),
                 dict(cfg_l, early_stopping={"patience": 5, "min_delta": 0.5}),
                 dict(cfg_l, fitness_error=0.5)][(j // 2 + j) % 5]
        try:
            used = cls(Cfg(**(item.get("cfg0") or cfg_j)))
            for q, e in enumerate(item["earlier"]):
                optimize_plain(used, build(e, rid + f"-amp{j}e{q}"), mode="serial", workers=2)
            if item.get("cfg0"):
                used.set_config_parameters(json.loads(json.dumps(cfg_j)))
            fresh = cls(Cfg(**cfg_j))
            st_u, res_u = optimize_plain(used, build(final, rid + f"-amp{j}u"), mode="serial", workers=2)
            st_f, res_f = optimize_plain(fresh, build(final, rid + f"-amp{j}f"), mode="serial", workers=2)
        except Exception:
            continue
        if "timeout" in (st_u, st_f):
            continue
        dd = outcome_difference(outcome_canon(st_u, res_u), outcome_canon(st_f, res_f))
        if dd:
            return f"judged call on {final['vars']!r} ({final.get('minmax')}, seed {final['seed']}, max_cycles {cfg_j['max_cycles']}): {dd}"
    return None


def work(item, opts):
    hooks.install()
    cls = env.optimizer_classes()[item["opt"]]
    Cfg = env.config_class(item["opt"])
    rid = f"c08-{os.getpid()}-{item['k']}"
    out = {"k": item["k"], "opt": item["opt"], "viol": [], "earlier_status": [], "stopped_by": []}
    try:
        used = cls(Cfg(**(item.get("cfg0") or item["cfg"])))
        last_task = None
        for j, e in enumerate(item["earlier"]):
            last_task = build(e, rid + f"-e{j}")
            st, payload = optimize_plain(used, last_task, mode="serial", workers=2)
            out["earlier_status"].append(st)
            if st == "ok":
                n = len(payload.rates)
                out["stopped_by"].append("max_cycles" if n >= (item.get("cfg0") or item["cfg"])["max_cycles"] else "criterion")
            if st == "timeout":
                out["skip"] = "timeout"
                return out
        if item.get("cfg0"):
            used.set_config_parameters(json.loads(json.dumps(item["cfg"])))
        fresh = cls(Cfg(**item["cfg"]))
        # oracle 2: arm the fields in which the used instance differs from a fresh one
        a = canon(vars(used))
        b = canon(vars(fresh))
        armed = {k for k in a if k not in IGNORED_FIELDS and (k not in b or dumps(a[k]) != dumps(b[k]))}
        # a field that merely holds a reference to a caller's object (task, configuration, variable) is a memo key, not
        # adaptive state: reading it to decide whether a cache is still valid is not a leak
        from pyvolutionary.models import Task as _Task, BaseOptimizationConfig as _Cfg, Variable as _Var
        armed = {k for k in armed if not isinstance(vars(used).get(k), (_Task, _Cfg, _Var)) or k == "_config"}
        out["armed"] = sorted(armed)
        mon = hooks.Monitor(attr=True)
        mon.armed = armed
        hooks.attr_hooks(True)
        try:
            t_u = last_task if item.get("same_task") else build(item["final"], rid + "-u")
            st_u, res_u = optimize_plain(used, t_u, mode="serial", workers=2, mon=mon)
        finally:
            hooks.attr_hooks(False)
        st_f, res_f = optimize_plain(fresh, build(item["final"], rid + "-f"), mode="serial", workers=2)
        if "timeout" in (st_u, st_f):
            out["skip"] = "timeout"
            return out
        cu, cf_ = outcome_canon(st_u, res_u), outcome_canon(st_f, res_f)
        out["final_status"] = st_f
        out["cycles"] = len(res_f.rates) if st_f == "ok" else 0
        d = outcome_difference(cu, cf_)
        if d:
            out["viol"].append({"key": {"optimizer": item["opt"], "kind": "result-depends-on-history"},
                                "detail": f"after {len(item['earlier'])} earlier call(s) [{','.join(out['earlier_status'])}]: used vs fresh instance: {d}"})
        # oracle 2 is a GUIDE, not a verdict: reading a left-over value before overwriting it is harmless when it only decides
        # whether to reset (`if self._errors: self._errors = []`).  A stale read is reported only together with a differential
        # witness: either this very history already gave another result than a fresh instance, or one of up to 24 further
        # judged calls after the same history (other tasks, longer budgets, no early stop) does.
        wit = d
        if mon.stale_reads and not wit:
            wit = amplify(item, cls, Cfg, rid)
            out["amplified"] = 1
        for field, n in sorted(mon.stale_reads.items()):
            if not wit:
                continue
            out["viol"].append({"key": {"optimizer": item["opt"], "kind": "stale-state-read", "field": field},
                                "detail": f"field {field} still holds the previous run's value ({dumps(a.get(field))[:80]} vs fresh "
                                          f"{dumps(b.get(field))[:80]}) and is read {n}x before being re-initialised; "
                                          f"observable effect: {str(wit)[:200]}"})
        out["stale_fields"] = sorted(mon.stale_reads)
        out["stale_unconfirmed"] = sorted(mon.stale_reads) if (mon.stale_reads and not wit) else []
        out["written"] = len(mon.written)
    finally:
        for r in list(tasks._RUNS):
            if str(r).startswith(rid):
                tasks.unregister_run(r)
    return out


def check(prop, tier, seed):
    rep = Report(prop, tier, seed)
    per_opt = 3 if tier == "quick" else 80
    items = [make_item(seed, k) for k in range(84 * per_opt)]
    for rep_ in range(2 if tier == "quick" else 8):
        items += [make_item(seed, 100000 + 1000 * rep_ + j, variant=v) for j, v in enumerate(universe.all_optional_variants())]
    res = runner.run_parallel("pvmon.props.c08", "work", items, {})
    opts_seen = set()
    armed_total = 0
    judged = 0
    stopped = {"max_cycles": 0, "criterion": 0}
    hist = {1: 0, 2: 0}
    aborted = 0
    unconfirmed = amplified = 0
    for it, r in zip(items, res):
        rep.evaluations += 1
        if isinstance(r, Lost) or r.get("skip"):
            rep.lost += 1
            continue
        judged += 1
        opts_seen.add(r["opt"])
        armed_total += len(r.get("armed", []))
        unconfirmed += len(r.get("stale_unconfirmed", []))
        amplified += r.get("amplified", 0)
        for s in r["stopped_by"]:
            stopped[s] += 1
        hist[len(it["earlier"])] += 1
        aborted += sum(1 for e, st_ in zip(it["earlier"], r["earlier_status"]) if e.get("_raise_after") is not None and st_ == "exc")
        if r.get("final_status") == "ok" and r.get("cycles", 0) >= 1 and "ok" in r["earlier_status"]:
            rep.distinct.add(it["k"])
        for v in r["viol"]:
            rep.violation(v["key"], v["detail"], replay={"kind": "c08", "item": it})
        if len(rep.samples) < 3 and r.get("final_status") == "ok":
            rep.sample({"optimizer": r["opt"], "earlier_calls": [e["vars"] for e in it["earlier"]], "final_vars": it["final"]["vars"],
                        "config": it["cfg"], "fields_armed": r.get("armed"), "stale_reads": r.get("stale_fields")})
    rep.extra.update({"histories_judged": judged, "optimizers_observed": len(opts_seen), "armed_fields_total": armed_total,
                      "earlier_runs_stopped_by": stopped, "histories_by_length": hist,
                      "earlier_runs_aborted_mid_run_by_a_raising_objective": aborted,
                      "histories_with_a_stale_read_explored_further": amplified,
                      "stale_reads_without_any_observable_effect_not_reported": unconfirmed,
                      "histories_whose_judged_call_reuses_the_task_object_of_the_earlier_call": sum(1 for it in items if it.get("same_task"))})
    rep.rule = ("history = 1 or 2 earlier optimize() calls (same or different task, ended by max_cycles / fitness_error / "
                "early stopping) on one instance, then the judged call; oracle 1: canonical result == fresh instance's; "
                "oracle 2: stale read of an armed field, reported only with a used-vs-fresh difference (this history or up to 10 "
                "further judged calls after it); non-trivial = earlier and final runs completed with >= 1 cycle")
    rep.require("optimizers_observed", len(opts_seen), 84)
    rep.require("histories_judged", judged, int(0.9 * len(items)))
    rep.require("armed_fields_total", armed_total, 84)
    return rep.finish()


def replay(prop, data):
    r = work(data["replay"]["item"], {})
    for v in r["viol"]:
        print(f"[{prop}] replay: {v['detail']}")
    return bool(r["viol"])
