"""C18 - every optimizer honours the uniform construction / configuration API (DESIGN C18)."""
import json
import os
import random

from .. import env, runner, universe, tasks, hooks
from ..report import Report
from ..runner import Lost
from ..relational import optimize_plain, outcome_canon, outcome_difference, dumps
from ..run import canon

MAGS = [-1e9, -1.0, 0, 1e-12, 1e3, 1e12]


def perturb_dict(rng, base):
    """a dictionary that the config model may accept or reject: the real model is the validity oracle"""
    d = json.loads(json.dumps(base))
    keys = sorted(d)
    how = rng.choice(["magnitude", "magnitude", "missing", "type", "extra", "none", "float-for-int", "valid"])
    k = rng.choice(keys)
    if how == "magnitude":
        v = d[k]
        m = rng.choice(MAGS)
        if isinstance(v, list):
            d[k] = [m for _ in v] if rng.random() < 0.5 else list(reversed(v))
        else:
            d[k] = int(m) if isinstance(v, int) and abs(m) >= 1 else m
    elif how == "missing":
        del d[k]
    elif how == "type":
        d[k] = rng.choice(["abc", [1, 2, 3], {"a": 1}, "7"])
    elif how == "extra":
        d["not_a_parameter"] = 3
    elif how == "none":
        d[k] = None
    elif how == "float-for-int":
        if isinstance(d[k], int):
            d[k] = d[k] + 0.5
    return d, how


def try_config(Cfg, d):
    try:
        return "ok", Cfg(**d)
    except Exception as e:
        return "raise", e


def work(item, opts):
    hooks.install()
    name = item["opt"]
    cls = env.optimizer_classes()[name]
    Cfg = env.config_class(name)
    rng = random.Random(f"c18/{item['seed']}/{name}")
    out = {"opt": name, "viol": [], "n": 0, "dicts": 0, "accepted": 0, "rejected": 0, "runs": 0}

    def viol(kind, detail, **extra):
        if len(out["viol"]) < 10:
            out["viol"].append({"key": {"optimizer": name, "kind": kind, **extra}, "detail": detail})

    # 1. constructible without a configuration
    out["n"] += 1
    try:
        o = cls()
    except Exception as e:
        viol("not-constructible-empty", f"{name}() raised {type(e).__name__}: {e}")
        return out
    if o.configuration is not None:
        viol("not-constructible-empty", f"{name}().configuration = {o.configuration!r}")
    # 2. refuses to optimise without one, before any cycle
    out["n"] += 1
    spec = universe.make_spec(rng, kind="continuous")
    rid = f"c18-{os.getpid()}-{name}"
    tasks.register_run(rid, spec)
    mon = hooks.Monitor()
    log = tasks._RUNS[rid][2]
    try:
        hooks.CUR.mon = mon
        try:
            cls().optimize(tasks.build_task(spec, rid))
            viol("optimize-without-config-accepted", "optimize() without configuration returned a result")
        except ValueError:
            if mon.steps or log.n:
                viol("optimize-without-config-late", f"rejected after {mon.steps} cycles / {log.n} objective calls")
        except Exception as e:
            viol("optimize-without-config-wrong-error", f"raised {type(e).__name__}: {e}"[:200])
        finally:
            hooks.CUR.mon = None
    finally:
        tasks.unregister_run(rid)
    # 3./4. set_config_parameters(d) == Config(**d), differential on perturbed dictionaries
    base = universe.base_configs()[name]
    dicts = [(dict(base), "base")]
    for _ in range(item["n_dicts"]):
        if rng.random() < 0.3:
            cfg, _k = universe.make_config(rng, name, perturbed=True)
            dicts.append((cfg, "valid-perturbed"))
        else:
            dicts.append(perturb_dict(rng, base))
    for d, how in dicts:
        out["n"] += 1
        out["dicts"] += 1
        st, ref = try_config(Cfg, json.loads(json.dumps(d)))
        o = cls()
        try:
            o.set_config_parameters(json.loads(json.dumps(d)))
            got = ("ok", o.configuration)
        except Exception as e:
            got = ("raise", e)
        if st == "ok":
            out["accepted"] += 1
            if got[0] != "ok":
                viol("set-config-rejects-valid", f"[{how}] {d!r}: config model accepts, set_config_parameters raised {got[1]!r}"[:300])
            elif got[1] is None or type(got[1]) is not type(ref) or got[1] != ref or dumps(canon(got[1])) != dumps(canon(ref)):
                viol("set-config-differs", f"[{how}] {d!r}: configuration {got[1]!r} != {ref!r}"[:300])
        else:
            out["rejected"] += 1
            if got[0] == "ok":
                viol("set-config-accepts-invalid", f"[{how}] {d!r}: config model raises {type(ref).__name__}, set_config_parameters accepted"[:300])
            elif not isinstance(got[1], type(ref)) and not isinstance(ref, type(got[1])):
                viol("set-config-wrong-error", f"[{how}] {d!r}: {type(got[1]).__name__} vs {type(ref).__name__}"[:300])
        # re-configuration of an already configured instance must give the same configuration
        if st == "ok" and rng.random() < 0.3:
            o2 = cls(Cfg(**base))
            o2.set_config_parameters(json.loads(json.dumps(d)))
            if o2.configuration != ref:
                viol("set-config-differs", f"[{how}] re-configuration of a configured instance: {o2.configuration!r} != {ref!r}"[:300])
    # 4a. values of other-but-accepted Python types (numpy scalars from np.arange grids, integral floats for ints, tuples for
    # lists, 0/1 for bools): set_config_parameters must accept exactly what the config model accepts
    import copy as _copy
    import numpy as _np
    for _ in range(max(4, item["n_dicts"] // 3)):
        cfgv, _k = universe.make_config(rng, name, perturbed=rng.random() < 0.5)
        d = dict(cfgv)
        for k in rng.sample(sorted(d), min(len(d), rng.randint(1, 3))):
            v = d[k]
            if isinstance(v, bool):
                d[k] = rng.choice([int(v), _np.bool_(v)])
            elif isinstance(v, int):
                d[k] = rng.choice([_np.int64(v), float(v), _np.int32(v), str(v)])
            elif isinstance(v, float):
                d[k] = rng.choice([_np.float64(v), _np.float32(v), str(v)] + ([int(v)] if float(v).is_integer() else []))
            elif isinstance(v, list):
                d[k] = rng.choice([tuple(v), _np.array(v), [_np.float64(e) if isinstance(e, float) else e for e in v]])
        out["n"] += 1
        out["dicts"] += 1
        st, ref = try_config(Cfg, _copy.copy(d))
        o = cls()
        try:
            o.set_config_parameters(_copy.copy(d))
            got = ("ok", o.configuration)
        except Exception as e:
            got = ("raise", e)
        shown = {kk: (type(vv).__name__, vv if not isinstance(vv, _np.ndarray) else vv.tolist()) for kk, vv in d.items() if type(vv) not in (int, float, list, bool, type(None), dict)}
        if st == "ok":
            out["accepted"] += 1
            if got[0] != "ok":
                viol("set-config-rejects-valid", f"[typed values {shown!r}] config model accepts, set_config_parameters raised {got[1]!r}"[:400])
            elif got[1] != ref:
                viol("set-config-differs", f"[typed values {shown!r}] configuration {got[1]!r} != {ref!r}"[:400])
        else:
            out["rejected"] += 1
            if got[0] == "ok":
                viol("set-config-accepts-invalid", f"[typed values {shown!r}] config model raises {type(ref).__name__}, set_config_parameters accepted"[:400])
    # 4b. set_config_parameters REPLACES the configuration: a dictionary that omits an optional parameter gives that
    # parameter its default, whatever the instance held before (empty -> d1 -> d2 and ctor(c1) -> d2)
    fields = Cfg.model_fields
    optional = [k for k in sorted(fields) if not fields[k].is_required() and k not in ("early_stopping",)]
    for k in optional:
        full, _k = universe.make_config(rng, name, perturbed=True)
        d0 = fields[k].default
        # a previous configuration in which k is NOT at its default
        prev = None
        for cand in ([full.get(k)] if k in full else []) + ([not d0] if isinstance(d0, bool) else []) + \
                ([d0 + 1, d0 + 2, d0 - 1] if isinstance(d0, int) and not isinstance(d0, bool) else []) + \
                ([d0 * 0.5, d0 * 1.5, 0.05] if isinstance(d0, float) else []) + ([0.05] if d0 is None or k == "fitness_error" else []):
            t_ = dict(full)
            t_[k] = cand
            if cand != d0 and universe.config_valid(name, t_):
                prev = t_
                break
        d2 = {kk: vv for kk, vv in full.items() if kk != k}
        if prev is None or not universe.config_valid(name, d2):
            continue
        ref = Cfg(**json.loads(json.dumps(d2)))
        for how in ("ctor", "set"):
            out["n"] += 1
            out["dicts"] += 1
            out["accepted"] += 1
            if how == "ctor":
                o3 = cls(Cfg(**json.loads(json.dumps(prev))))
            else:
                o3 = cls()
                o3.set_config_parameters(json.loads(json.dumps(prev)))
            try:
                o3.set_config_parameters(json.loads(json.dumps(d2)))
                if o3.configuration != ref or dumps(canon(o3.configuration)) != dumps(canon(ref)):
                    viol("set-config-differs", f"[omitted optional '{k}' after a configuration with {k}={prev[k]!r} ({how})] "
                                               f"{d2!r}: configuration {o3.configuration!r} != {ref!r}"[:400])
            except Exception as e:
                viol("set-config-rejects-valid", f"[omitted optional '{k}'] {d2!r}: {e!r}"[:300])
    # 5. run equivalence: ctor(cfg) vs ctor(); set_config_parameters(d)  (+ stale-read monitor)
    for t in range(item["n_runs"]):
        cfg, _k = universe.make_config(rng, name, perturbed=rng.random() < 0.5, max_cycles=rng.choice([2, 3, 5]))
        spec = universe.make_spec(rng, kind=rng.choice(["continuous", "continuous", "multiobjective", "mixed", "binary"]))
        a = cls(Cfg(**cfg))
        b = cls()
        b.set_config_parameters(json.loads(json.dumps(cfg)))
        ca, cb = canon(vars(a)), canon(vars(b))
        armed = {k for k in ca if k not in cb or dumps(ca[k]) != dumps(cb[k])}
        if t % 2 == 1:      # re-configuration path: an instance built with another configuration, then set_config_parameters
            other, _k = universe.make_config(rng, name, perturbed=True, max_cycles=7)
            b = cls(Cfg(**other))
            if t % 4 == 3 or item["n_runs"] <= 2:
                # the way HyperTuner drives an optimizer: configure, run, re-configure, run again
                other_spec = universe.make_spec(rng, kind=rng.choice(["continuous", "mixed"]))
                tasks.register_run(rid + "-pre", other_spec)
                try:
                    optimize_plain(b, tasks.build_task(other_spec, rid + "-pre"), mode="serial", workers=2)
                finally:
                    tasks.unregister_run(rid + "-pre")
            b.set_config_parameters(json.loads(json.dumps(cfg)))
            cb = canon(vars(b))
            armed = {k for k in ca if k not in cb or dumps(ca[k]) != dumps(cb[k])}
        rid_a, rid_b = rid + f"-a{t}", rid + f"-b{t}"
        tasks.register_run(rid_a, spec)
        tasks.register_run(rid_b, spec)
        try:
            sa, ra = optimize_plain(a, tasks.build_task(spec, rid_a), mode="serial", workers=2)
            mon = hooks.Monitor(attr=True)
            mon.armed = armed
            hooks.attr_hooks(True)
            try:
                sb, rb = optimize_plain(b, tasks.build_task(spec, rid_b), mode="serial", workers=2, mon=mon)
            finally:
                hooks.attr_hooks(False)
        finally:
            tasks.unregister_run(rid_a)
            tasks.unregister_run(rid_b)
        if "timeout" in (sa, sb):
            continue
        out["runs"] += 1
        out["n"] += 1
        d = outcome_difference(outcome_canon(sa, ra), outcome_canon(sb, rb))
        if d:
            viol("run-differs-after-set-config", f"config {cfg!r}: constructed-with-config vs set_config_parameters: {d}"[:400])
        # a stale read is a guide, not a verdict (reading a left-over value only to decide whether to refresh it is harmless):
        # it is reported only with an observable difference, from this pair or from up to 8 further pairs built the same way
        wit = d
        if mon.stale_reads and not wit:
            out["amplified"] = out.get("amplified", 0) + 1
            for j in range(8):
                spec_j = universe.make_spec(rng, kind=rng.choice(["continuous", "continuous", "multiobjective", "mixed", "binary"]))
                cfg_j = dict(cfg, max_cycles=12, fitness_error=None, early_stopping=None) if j % 2 == 0 else cfg
                try:
                    a_j = cls(Cfg(**cfg_j))
                    if t % 2 == 1:
                        b_j = cls(Cfg(**other))
                        optimize_plain(b_j, tasks.build_task(spec, rid + "-amp-pre"), mode="serial", workers=2)
                    else:
                        b_j = cls()
                    b_j.set_config_parameters(json.loads(json.dumps(cfg_j)))
                    for r_ in (rid + "-ampa", rid + "-ampb", rid + "-amp-pre"):
                        tasks.register_run(r_, spec_j)
                    s1, r1 = optimize_plain(a_j, tasks.build_task(spec_j, rid + "-ampa"), mode="serial", workers=2)
                    s2, r2 = optimize_plain(b_j, tasks.build_task(spec_j, rid + "-ampb"), mode="serial", workers=2)
                except Exception:
                    continue
                finally:
                    for r_ in (rid + "-ampa", rid + "-ampb", rid + "-amp-pre"):
                        tasks.unregister_run(r_)
                if "timeout" in (s1, s2):
                    continue
                wit = outcome_difference(outcome_canon(s1, r1), outcome_canon(s2, r2))
                if wit:
                    wit = f"config {cfg_j!r} on {spec_j['vars']!r}: {wit}"
                    break
        for field, n in sorted(mon.stale_reads.items()):
            if not wit:
                out["stale_unconfirmed"] = out.get("stale_unconfirmed", 0) + 1
                continue
            viol("config-value-cached-at-construction", f"field {field} differs between the two instances "
                 f"({dumps(ca.get(field))[:60]} vs {dumps(cb.get(field))[:60]}) and is read {n}x before being written; "
                 f"observable effect: {str(wit)[:200]}", field=field)
    return out


def check(prop, tier, seed):
    rep = Report(prop, tier, seed)
    names = universe.opt_names()
    items = [{"opt": n, "seed": seed, "n_dicts": 14 if tier == "quick" else 400, "n_runs": 2 if tier == "quick" else 40} for n in names]
    res = runner.run_parallel("pvmon.props.c18", "work", items, {}, batch=2 if tier == "quick" else 1, per_item_s=300)
    seen = set()
    tot = {"dicts": 0, "accepted": 0, "rejected": 0, "runs": 0}
    for it, r in zip(items, res):
        if isinstance(r, Lost):
            rep.lost += 1
            continue
        seen.add(r["opt"])
        rep.evaluations += r["n"]
        for k in tot:
            tot[k] += r[k]
        for j in range(r["dicts"] + r["runs"]):
            rep.distinct.add((r["opt"], j))
        for v in r["viol"]:
            rep.violation(v["key"], v["detail"], replay={"kind": "c18", "item": it})
    rep.extra.update({"optimizers_observed": len(seen), **{f"total_{k}": v for k, v in tot.items()}})
    rep.extra["pairs_with_a_stale_read_explored_further"] = sum(r.get("amplified", 0) for r in res if not isinstance(r, Lost))
    rep.extra["stale_reads_without_any_observable_effect_not_reported"] = sum(r.get("stale_unconfirmed", 0) for r in res if not isinstance(r, Lost))
    rep.sample({"optimizer": names[0], "steps": ["Cls()", "Cls().optimize(task) -> ValueError, 0 cycles", "set_config_parameters(d) vs Config(**d) on base + perturbed dictionaries",
                                                  "seeded run(Cls(cfg)) == run(Cls(); set_config_parameters(d)) under the stale-read monitor"],
                "base_config": universe.base_configs()[names[0]]})
    rep.rule = ("for each of the 84 exported classes: empty construction, refusal without configuration (zero cycles, "
                "zero objective calls), differential set_config_parameters(d) vs the real config model on base / valid "
                "perturbed / invalid dictionaries (6 magnitudes, missing keys, wrong types, None, extra keys), seeded run "
                "equivalence with H-attr stale-read monitor (a stale read is reported only with an observable difference, from this pair or up "
                "to 8 further pairs); distinct = (optimizer, dictionary or run) pairs judged")
    rep.require("optimizers_observed", len(seen), 84)
    rep.require("dictionaries_accepted", tot["accepted"], 84 * 3)
    rep.require("dictionaries_rejected", tot["rejected"], 84 * 2)
    rep.require("equivalence_runs", tot["runs"], 84)
    if rep.lost:
        rep.inconclusive.append(f"{rep.lost} optimizers lost")
    return rep.finish()


def replay(prop, data):
    r = work(data["replay"]["item"], {})
    for v in r["viol"]:
        print(f"[{prop}] replay: {v['detail']}")
    return bool(r["viol"])
