"""C13 - variable types obey their domain laws.  The real randomize / correct / decode / get_bounds / constructors
are called directly on enumerated and random inputs; the oracle is the algebraic law (DESIGN C13)."""
import itertools
import math
import random

import numpy as np

from .. import env, runner
from ..report import Report
from ..runner import Lost
from pyvolutionary import (ContinuousVariable, ContinuousMultiVariable, MultiObjectiveVariable, DiscreteVariable,
                           DiscreteMultiVariable, BinaryVariable, PermutationVariable)

_INT = (int, np.integer)
_REAL = (int, float, np.floating, np.integer)


class Bag:
    def __init__(self):
        self.n = 0                  # law evaluations
        self.distinct = set()
        self.viol = []
        self.samples = []
        self.counts = {}

    def ok(self, cond, law, vtype, detail, key_extra=None):
        self.n += 1
        self.counts[law] = self.counts.get(law, 0) + 1
        if not cond and len(self.viol) < 40:
            self.viol.append({"key": {"component": vtype, "law": law, **(key_extra or {})}, "detail": detail})
        return cond


def in_cont(lb, ub, c):
    return isinstance(c, _REAL) and not isinstance(c, (bool, np.bool_)) and c == c and math.isfinite(c) and lb <= c <= ub


def in_disc(n, c):
    return isinstance(c, _INT) and not isinstance(c, (bool, np.bool_)) and 0 <= c < n


def is_perm(n, p):
    try:
        return (isinstance(p, (list, tuple)) and len(p) == n and all(isinstance(e, _INT) and not isinstance(e, bool) for e in p)
                and sorted(int(e) for e in p) == list(range(n)))
    except Exception:
        return False


def same(a, b):
    if isinstance(a, (list, tuple)) and isinstance(b, (list, tuple)):
        return len(a) == len(b) and all(same(x, y) for x, y in zip(a, b))
    try:
        return bool(a == b) and type(a) in (int, float, bool, str) and type(b) in (int, float, bool, str) or bool(a == b)
    except Exception:
        return False


def cont_candidates(rng, lb, ub):
    w = ub - lb
    vals = [lb, ub, (lb + ub) / 2, lb + w * rng.random(), np.nextafter(lb, -np.inf), np.nextafter(ub, np.inf),
            np.nextafter(lb, np.inf), np.nextafter(ub, -np.inf), lb - w, ub + w, lb - 1e6 * (1 + abs(lb)),
            1e308, -1e308, 1e-320, -1e-320, 0.0, -0.0, lb - rng.random() * w * 10, ub + rng.random() * w * 10]
    out = [float(v) for v in vals]
    x = lb + w * rng.random()
    out += [np.float64(x), np.float32(x), np.float16(max(min(x, 6e4), -6e4)), np.float32(lb - w), np.float32(ub + w),
            np.float32(lb), np.float32(ub), np.int64(int(max(min(x, 2 ** 62), -2 ** 62))), np.int32(7), np.uint8(3),
            int(math.floor(max(min(x, 2 ** 62), -2 ** 62))), int(math.ceil(max(min(ub, 2 ** 62), -2 ** 62))) + 3,
            np.float16(1.5), np.float32(-56.5)]
    return out


def law_continuous(bag, rng, lb, ub, ctor=ContinuousVariable, label="ContinuousVariable"):
    v = ctor(name="x", lower_bound=lb, upper_bound=ub)
    bag.distinct.add((label, lb, ub))
    np.random.seed(rng.randrange(2 ** 32))
    for _ in range(3):
        r = v.randomize()
        bag.ok(in_cont(lb, ub, r), "randomize-in-domain", label, f"[{lb!r},{ub!r}].randomize() = {r!r}")
    b = v.get_bounds()
    bag.ok(tuple(b) == (lb, ub), "get_bounds", label, f"get_bounds() = {b!r} for [{lb!r},{ub!r}]")
    bag.ok(v.size() == 1, "size", label, f"size() = {v.size()}")
    for c in cont_candidates(rng, lb, ub):
        try:
            r = v.correct(c)
        except Exception as e:
            bag.ok(False, "correct-total", label, f"[{lb!r},{ub!r}].correct({c!r}) raised {e!r}")
            continue
        bag.ok(in_cont(lb, ub, r), "correct-in-domain", label,
               f"[{lb!r},{ub!r}].correct({type(c).__name__}({c!r})) = {r!r}", {"input": type(c).__name__})
        if in_cont(lb, ub, c):
            bag.ok(r == c, "correct-identity-on-members", label, f"[{lb!r},{ub!r}].correct({c!r}) = {r!r}")
        try:
            r2 = v.correct(r)
            bag.ok(r2 == r or (r2 != r2 and r != r), "correct-idempotent", label,
                   f"[{lb!r},{ub!r}]: correct({c!r}) = {r!r} but correct of that = {r2!r}")
            d = v.decode(r)
            bag.ok(in_cont(lb, ub, d), "decode-in-domain", label, f"decode(correct({c!r})) = {d!r}")
        except Exception as e:
            bag.ok(False, "correct-total", label, f"second correct/decode raised {e!r}")
    if len(bag.samples) < 2:
        bag.samples.append({"variable": label, "bounds": [lb, ub], "inputs": [repr(c) for c in cont_candidates(rng, lb, ub)[:6]]})


def disc_candidates(rng, n):
    out = list(range(-2, n + 2)) + [k + 0.5 for k in range(-1, n)] + [k + 0.999999 for k in range(0, n)] + \
          [-0.5, -0.999, -1e-9, n - 1 + 1e-9, n - 0.5, 1e308, -1e308, 1e18, -1e18, float(n - 1), 0.0,
           np.int64(n - 1), np.int32(0), np.float64(n / 2), np.float32(n - 1), np.uint8(min(n, 200)), np.int64(-3),
           rng.uniform(-3, n + 3), rng.uniform(0, n - 1)]
    return out


def law_discrete(bag, rng, choices):
    n = len(choices)
    label = "DiscreteVariable"
    v = DiscreteVariable(name="d", choices=choices)
    bag.distinct.add((label, repr(choices)))
    np.random.seed(rng.randrange(2 ** 32))
    for _ in range(3):
        r = v.randomize()
        bag.ok(in_disc(n, r), "randomize-in-domain", label, f"choices {choices!r}: randomize() = {r!r}")
    for c in disc_candidates(rng, n):
        try:
            r = v.correct(c)
        except Exception as e:
            bag.ok(False, "correct-total", label, f"choices n={n}: correct({c!r}) raised {e!r}")
            continue
        bag.ok(in_disc(n, r), "correct-in-domain", label, f"n={n}: correct({type(c).__name__}({c!r})) = {r!r}")
        if in_disc(n, c):
            bag.ok(r == c, "correct-identity-on-members", label, f"n={n}: correct({c!r}) = {r!r}")
        try:
            r2 = v.correct(r)
            bag.ok(r2 == r, "correct-idempotent", label, f"n={n}: correct({c!r}) = {r!r}, again = {r2!r}")
            d = v.decode(r)
            bag.ok(any(d is ch or d == ch for ch in choices) and (not in_disc(n, r) or d == choices[int(r)]),
                   "decode-declared-choice", label, f"choices {choices!r}: decode(correct({c!r})={r!r}) = {d!r}")
        except Exception as e:
            bag.ok(False, "correct-total", label, f"n={n}: second correct/decode of {r!r} raised {e!r}")


def law_multi(bag, rng, kind):
    np.random.seed(rng.randrange(2 ** 32))
    if kind in ("cm", "mo"):
        n = rng.randint(1, 5)
        lbs = [rng.choice([-10.0, 0.0, 1e-3, -1e6, 3.5]) for _ in range(n)]
        ubs = [lb + rng.choice([1e-3, 1.0, 20.0, 2e6]) for lb in lbs]
        cls = ContinuousMultiVariable if kind == "cm" else MultiObjectiveVariable
        label = cls.__name__
        v = cls(name="m", lower_bounds=list(lbs) if kind == "cm" else tuple(lbs), upper_bounds=list(ubs) if kind == "cm" else tuple(ubs))
        bag.distinct.add((label, tuple(lbs), tuple(ubs)))
        bag.ok(v.size() == n, "size", label, f"size() = {v.size()} for {n} bounds")
        gb = v.get_bounds()
        bag.ok(len(gb) == 2 and list(gb[0]) == lbs and list(gb[1]) == ubs, "get_bounds", label, f"get_bounds() = {gb!r}")
        r = v.randomize()
        bag.ok(isinstance(r, list) and len(r) == n and all(in_cont(a, b, c) for a, b, c in zip(lbs, ubs, r)),
               "randomize-in-domain", label, f"randomize() = {r!r} for {lbs!r}..{ubs!r}")
        x = [rng.choice([lb - 5, lb, (lb + ub) / 2, ub, ub + 7, np.float32(lb - 1), lb + (ub - lb) * rng.random()])
             for lb, ub in zip(lbs, ubs)]
        try:
            c = v.correct(x)
            want = [ContinuousVariable(name="q", lower_bound=a, upper_bound=b).correct(e) for a, b, e in zip(lbs, ubs, x)]
            bag.ok(isinstance(c, list) and len(c) == n and all(in_cont(a, b, e) for a, b, e in zip(lbs, ubs, c)),
                   "correct-in-domain", label, f"correct({x!r}) = {c!r} for {lbs!r}..{ubs!r}")
            bag.ok(c == want, "child-wise", label, f"correct({x!r}) = {c!r}, child-wise gives {want!r}")
            bag.ok(v.correct(c) == c, "correct-idempotent", label, f"correct twice differs for {x!r}")
            bag.ok(v.decode(c) == c, "decode-in-domain", label, f"decode({c!r}) = {v.decode(c)!r}")
        except Exception as e:
            bag.ok(False, "correct-total", label, f"correct({x!r}) raised {e!r}")
    elif kind == "dm":
        n = rng.randint(1, 4)
        chs = [[rng.choice([1, 5, 9, "a", 2.5, -3]) for _ in range(rng.randint(1, 6))] for _ in range(n)]
        label = "DiscreteMultiVariable"
        v = DiscreteMultiVariable(name="dm", choices=chs)
        bag.distinct.add((label, repr(chs)))
        bag.ok(v.size() == n, "size", label, f"size() = {v.size()}, {n} children")
        r = v.randomize()
        bag.ok(isinstance(r, list) and len(r) == n and all(in_disc(len(ch), c) for ch, c in zip(chs, r)),
               "randomize-in-domain", label, f"randomize() = {r!r} for {chs!r}")
        x = [rng.choice([-1, 0, len(ch) - 1, len(ch), len(ch) - 0.5, 0.5, rng.uniform(-2, len(ch) + 2)]) for ch in chs]
        try:
            c = v.correct(x)
            bag.ok(isinstance(c, list) and len(c) == n and all(in_disc(len(ch), e) for ch, e in zip(chs, c)),
                   "correct-in-domain", label, f"correct({x!r}) = {c!r} for sizes {[len(c_) for c_ in chs]}")
            want = [DiscreteVariable(name="q", choices=ch).correct(e) for ch, e in zip(chs, x)]
            bag.ok(c == want, "child-wise", label, f"correct({x!r}) = {c!r}, child-wise gives {want!r}")
            bag.ok(v.correct(c) == c, "correct-idempotent", label, f"correct twice differs for {x!r}")
            d = v.decode(c)
            bag.ok(d == [ch[int(e)] for ch, e in zip(chs, c)], "decode-declared-choice", label, f"decode({c!r}) = {d!r}")
        except Exception as e:
            bag.ok(False, "correct-total", label, f"correct({x!r}) raised {e!r}")
    else:
        n = rng.randint(1, 8)
        label = "BinaryVariable"
        v = BinaryVariable(name="b", n_vars=n)
        bag.distinct.add((label, n))
        bag.ok(v.size() == n, "size", label, f"size() = {v.size()} for n_vars={n}")
        r = v.randomize()
        bag.ok(isinstance(r, list) and len(r) == n and all(in_disc(2, c) for c in r), "randomize-in-domain", label,
               f"randomize() = {r!r}")
        x = [rng.choice([-1, 0, 1, 2, 0.5, 1.5, 1.999, -0.2, 7.0, rng.uniform(-1, 3)]) for _ in range(n)]
        try:
            c = v.correct(x)
            bag.ok(isinstance(c, list) and len(c) == n and all(in_disc(2, e) for e in c), "correct-in-domain", label,
                   f"correct({x!r}) = {c!r}")
            want = [DiscreteVariable(name="q", choices=[0, 1]).correct(e) for e in x]
            bag.ok(c == want, "child-wise", label, f"correct({x!r}) = {c!r}, child-wise {want!r}")
            bag.ok(v.correct(c) == c, "correct-idempotent", label, f"correct twice differs for {x!r}")
            d = v.decode(c)
            bag.ok(d == [[0, 1][int(e)] for e in c], "decode-declared-choice", label, f"decode({c!r}) = {d!r}")
        except Exception as e:
            bag.ok(False, "correct-total", label, f"correct({x!r}) raised {e!r}")


_OLD_PERMS = []


def law_permutation(bag, rng, items, exhaustive=False):
    n = len(items)
    label = "PermutationVariable"
    v = PermutationVariable(name="p", items=items)
    # variables built earlier must keep decoding with THEIR items after other variables were constructed
    _OLD_PERMS.append((v, list(items)))
    if len(_OLD_PERMS) > 3:
        ov, oitems = _OLD_PERMS[rng.randrange(len(_OLD_PERMS) - 1)]
        try:
            p_ = rng.sample(range(len(oitems)), len(oitems))
            L0 = ov.decode(list(range(len(oitems))))
            d0 = ov.decode(p_)
            bag.ok(sorted(map(repr, L0)) == sorted(map(repr, oitems)) and list(d0) == [L0[i] for i in p_], "decode-consistent", label,
                   f"a variable with items {oitems!r}, after {len(_OLD_PERMS)} other variables were built: decode({p_!r}) = {d0!r}")
        except Exception as e:
            bag.ok(False, "decode-consistent", label, f"older variable with items {oitems!r}: decode raised {e!r}")
        if len(_OLD_PERMS) > 40:
            del _OLD_PERMS[:20]
    bag.distinct.add((label, repr(items)))
    np.random.seed(rng.randrange(2 ** 32))
    r = v.randomize()
    bag.ok(is_perm(n, r), "randomize-in-domain", label, f"items {items!r}: randomize() = {r!r}")
    ident = list(range(n))
    try:
        L = v.decode(ident)
        bag.ok(isinstance(L, list) and sorted(map(repr, L)) == sorted(map(repr, items)), "decode-rearrangement", label,
               f"decode(identity) = {L!r} for items {items!r}")
    except Exception as e:
        bag.ok(False, "decode-rearrangement", label, f"decode(identity) raised {e!r}")
        return
    cands = []
    if exhaustive:
        cands += [list(p) for p in itertools.permutations(range(n))]
    else:
        cands += [rng.sample(range(n), n) for _ in range(6)]
    cands += [[rng.uniform(-5, 5) for _ in range(n)] for _ in range(4)]                  # random keys
    cands += [[rng.choice([0.0, 1.0, 2.5]) for _ in range(n)] for _ in range(3)]        # keys with ties
    perm_ = rng.sample(range(n), n)
    cands += [[e - 5e-9 for e in perm_], [e + 5e-9 for e in perm_], [e * (1 - 1e-12) for e in perm_], [e - 1e-12 for e in perm_],
              [e + rng.uniform(-9e-9, 9e-9) for e in perm_], [e + rng.uniform(-1e-6, 1e-6) for e in perm_]]   # permutation + noise
    cands += [[float(e) for e in rng.sample(range(n), n)], [e + 0.25 for e in rng.sample(range(n), n)],
              list(np.array(rng.sample(range(n), n))), np.array(rng.sample(range(n), n)),
              [1e308 * rng.choice([-1, 1]) * rng.random() for _ in range(n)], tuple(rng.sample(range(n), n))]
    for c in cands:
        try:
            r = v.correct(c)
        except Exception as e:
            bag.ok(False, "correct-total", label, f"n={n}: correct({c!r}) raised {e!r}")
            continue
        bag.ok(is_perm(n, r), "correct-in-domain", label, f"n={n}: correct({c!r}) = {r!r}")
        if is_perm(n, list(c)) and all(isinstance(e, _INT) for e in c):
            bag.ok(list(r) == [int(e) for e in c], "correct-identity-on-members", label, f"correct({list(c)!r}) = {r!r}")
        try:
            r2 = v.correct(r)
            bag.ok(list(r2) == list(r), "correct-idempotent", label, f"correct({list(c)!r}) = {r!r}, again = {r2!r}")
            d = v.decode(r)
            bag.ok(is_perm(n, r) and list(d) == [L[int(i)] for i in r], "decode-consistent", label,
                   f"decode(correct({list(c)!r}) = {r!r}) = {d!r}, labels {L!r}")
        except Exception as e:
            bag.ok(False, "correct-total", label, f"n={n}: second correct/decode of {r!r} raised {e!r}")


def law_rejections(bag, rng):
    def rejected(label, what, f):
        try:
            f()
            bag.ok(False, "construction-rejected", label, f"{what} was accepted")
        except ValueError:
            bag.ok(True, "construction-rejected", label, "")
        except Exception as e:
            bag.ok(False, "construction-rejected", label, f"{what} raised {type(e).__name__} instead of ValueError")
    for _ in range(20):
        a = rng.choice([-10.0, 0.0, 2.5, 1e6, -1e-3])
        w = rng.choice([1e-9, 1.0, 1e3])
        rejected("ContinuousVariable", f"inverted bounds [{a + w},{a}]", lambda: ContinuousVariable(name="x", lower_bound=a + w, upper_bound=a))
        rejected("ContinuousVariable", f"equal bounds [{a},{a}]", lambda: ContinuousVariable(name="x", lower_bound=a, upper_bound=a))
        n = rng.randint(1, 4)
        lbs = [rng.uniform(-5, 5) for _ in range(n)]
        ubs = [lb + rng.uniform(0.1, 3) for lb in lbs]
        k = rng.randrange(n)
        for cls in (ContinuousMultiVariable, MultiObjectiveVariable):
            bad = list(ubs); bad[k] = lbs[k] - rng.choice([0.0, 1.0])
            rejected(cls.__name__, f"inverted/equal bound at {k}: {lbs} {bad}", lambda: cls(name="m", lower_bounds=list(lbs), upper_bounds=bad))
            rejected(cls.__name__, "length-mismatched bounds", lambda: cls(name="m", lower_bounds=list(lbs), upper_bounds=ubs + [99.0]))
            rejected(cls.__name__, "length-mismatched bounds", lambda: cls(name="m", lower_bounds=lbs + [-99.0], upper_bounds=list(ubs)))
        for nv in (0, -1, -rng.randint(2, 9)):
            rejected("BinaryVariable", f"n_vars={nv}", lambda: BinaryVariable(name="b", n_vars=nv))
    # valid definitions must be accepted (so that the rejection laws are not satisfied by rejecting everything)
    try:
        ContinuousVariable(name="x", lower_bound=0, upper_bound=1e-300)
        BinaryVariable(name="b", n_vars=1)
        ContinuousMultiVariable(name="m", lower_bounds=[0], upper_bounds=[1])
        bag.ok(True, "construction-accepted", "all", "")
    except Exception as e:
        bag.ok(False, "construction-accepted", "all", f"valid definition rejected: {e!r}")


BOUNDS = [(-10.0, 10.0), (0.0, 5.0), (-5.0, 0.0), (1e-3, 2e-3), (-1e6, 1e6), (1e3, 1e3 + 1e-3), (-55.50951285, 12.25),
          (-1e-300, 1e-300), (0.1, 0.30000000000000004), (-3.0, 7.0), (2.0 ** 52, 2.0 ** 52 + 8), (-1e15, -1e15 + 1)]


def work(item, opts):
    seed, n_rand, exhaustive_n = item["seed"], item["n"], item.get("perm_n", 0)
    rng = random.Random(f"c13/{seed}")
    bag = Bag()
    if item.get("fixed"):
        for lb, ub in BOUNDS:
            law_continuous(bag, rng, lb, ub)
        for n in range(1, 8):
            law_discrete(bag, rng, [rng.choice([1, 5, "a", 2.5, None, -3, 9]) for _ in range(n)])
        for n in range(1, exhaustive_n + 1):
            law_permutation(bag, rng, rng.sample(["a", "b", "c", 1, 2, 2.5, "zz", 10], n), exhaustive=True)
        law_rejections(bag, rng)
    for _ in range(n_rand):
        e = rng.choice([1e-3, 1.0, 1e3, 1e6])
        lb = rng.choice([0.0, rng.uniform(-1, 1) * e, -e, e])
        ub = lb + rng.choice([1e-3, 1.0, 1e3, 1e6]) * rng.uniform(0.1, 1)
        if ub > lb:
            law_continuous(bag, rng, lb, ub)
        law_discrete(bag, rng, rng.sample([1, 5, 9, 11, 0.5, 2.5, 7.0, "a", "b", -3, 0, None], rng.randint(1, 7)))
        for k in ("cm", "mo", "dm", "b"):
            law_multi(bag, rng, k)
        law_permutation(bag, rng, rng.sample(["a", "b", "c", "d", 1, 2, 3, 10, 2.5, 7.5, 0.25, "zz"], rng.randint(1, 8)))
    return {"n": bag.n, "distinct": len(bag.distinct), "viol": bag.viol, "samples": bag.samples, "counts": bag.counts}


def check(prop, tier, seed):
    rep = Report(prop, tier, seed)
    chunks = 16 if tier == "quick" else 128
    n_rand = 40 if tier == "quick" else 1500
    items = [{"seed": f"{seed}/{k}", "n": n_rand, "fixed": k == 0, "perm_n": 5 if tier == "quick" else 6} for k in range(chunks)]
    res = runner.run_parallel("pvmon.props.c13", "work", items, {}, batch=1)
    counts = {}
    for it, r in zip(items, res):
        if isinstance(r, Lost):
            rep.lost += 1
            continue
        rep.evaluations += r["n"]
        for k in range(r["distinct"]):
            rep.distinct.add((it["seed"], k))
        for v in r["viol"]:
            rep.violation(v["key"], v["detail"], replay={"kind": "c13", "item": it})
        for s in r["samples"]:
            rep.sample(s)
        for k, n in r["counts"].items():
            counts[k] = counts.get(k, 0) + n
    rep.extra["law_evaluations_by_law"] = counts
    rep.extra["exhaustive_part"] = "all permutations of n <= %d items as inputs of correct/decode" % (5 if tier == "quick" else 6)
    rep.rule = ("real variable classes called directly; inputs: fixed boundary table + random bounds/choices/items; "
                "candidates in range, on each bound, +-1 ulp outside, +-1e308, subnormals, fractional, negative "
                "fractions, numpy scalars of 6 dtypes, python ints, keys with ties, all permutations of n<=5/6; NaN and "
                "+-inf are not judged; distinct = distinct variable definitions exercised")
    rep.require("law_evaluations", rep.evaluations, 20000)
    if rep.lost:
        rep.inconclusive.append(f"{rep.lost} chunks lost")
    return rep.finish()


def replay(prop, data):
    r = work(data["replay"]["item"], {})
    for v in r["viol"]:
        if v["key"] == data["key"]:
            print(f"[{prop}] replay: {v['detail']}")
            return True
    return False
