"""C11 - thread and process modes change scheduling, not guarantees (DESIGN C11).
Real thread/process runs with seeded per-evaluation delays; H-pool observes every pooled operation (futures submitted,
results gathered, completion permutation), H-obj every evaluated argument vector."""
import collections
import json
import random

from .. import env, runner, universe, tasks
from ..report import Report
from . import common

POOL_HEAVY = {"FicksLawOptimization", "KrillHerdOptimization", "WildebeestHerdOptimization", "WindDrivenOptimization",
              "DragonflyOptimization", "CatSwarmOptimization"}
RESULT_PROPS = ("C01", "C02", "C03", "C10")
PLUMBING = {"_greedy_select_population", "_generate_agents", "get_pool_executor"}


def make_items(tier, seed):
    rng = random.Random(f"c11/{tier}/{seed}")
    names = universe.opt_names()
    n_thread = 2 if tier == "quick" else 24
    n_proc = 1 if tier == "quick" else 8
    want = collections.Counter()
    for n in names:
        w = 5 if n in POOL_HEAVY else 1
        want[(n, "thread")] = n_thread * (w if tier != "quick" else min(w, 3))
        want[(n, "process")] = n_proc * (2 if n in POOL_HEAVY else 1)
    items = []
    # scan the audited universe for continuous-task cases of each optimizer
    idx = universe.sample_indices(seed, universe.UNIVERSE_SIZE if tier == "thorough" else min(universe.UNIVERSE_SIZE, 60000), tag="C11" + tier)
    for i in idx:
        if not want:
            break
        c = universe.case(i)
        if not tasks.is_strict_class(c["spec"]) or c["spec"].get("weights") is not None and rng.random() < 0.5:
            continue
        for mode in ("thread", "process"):
            k = (c["opt"], mode)
            if want.get(k, 0) > 0:
                want[k] -= 1
                if want[k] == 0:
                    del want[k]
                workers = rng.randint(1, 16) if mode == "thread" else (rng.randint(1, 16) if tier == "thorough" else rng.choice([2, 3, 4, 5, 6, 11, 16]))
                # thread/process variants are unaudited anyway, so their seed can be varied freely: documented special
                # values (0 is falsy!), unseeded, and the case's own seed
                sd = rng.choice(["own", "own", 0, 0, 1, "none", 42, 2 ** 32 - 1])
                items.append({"i": i, "mode": mode, "workers": workers, **({} if sd == "own" else {"seed": sd}),
                              **({"yield": True} if mode == "thread" and rng.random() < (0.35 if tier == "quick" else 0.5) else {}),
                              "delay": {"salt": f"{seed}-{i}-{mode}", "max_ms": 3.0 if mode == "thread" else 2.0, "p": 0.5}})
                break
    # integer-coded tasks (discrete / binary / discrete-multi: few distinct points, coinciding agents are normal there) in
    # pooled mode: the pool must hand back one agent per request whatever the agents look like
    need_int = {(n, m): (1 if tier == "quick" else (6 if m == "thread" else 2)) for n in names for m in (("thread",) if tier == "quick" else ("thread", "process"))}
    for i in idx:
        if not need_int:
            break
        c = universe.case(i)
        if tasks.kind_of_spec(c["spec"]) not in ("discrete", "binary", "discrete-multi"):
            continue
        for mode in ("thread", "process"):
            k = (c["opt"], mode)
            if k in need_int:
                items.append({"i": i, "mode": mode, "workers": rng.choice([2, 3, 5, 8]), "delay": {"salt": f"{seed}-{i}-int", "max_ms": 1.0, "p": 0.3}})
                need_int[k] -= 1
                if need_int[k] == 0:
                    del need_int[k]
                break
    # worker-count corners for the optimizers that use the pool beyond initialisation: workers around the population size
    # (population - 1, population, population + 1) and the maximum 16, in both pooled modes
    corner_need = {(n, m): 3 if tier == "quick" else 8 for n in sorted(POOL_HEAVY) for m in ("thread", "process")}
    for i in idx:
        if not corner_need:
            break
        c = universe.case(i)
        if c["opt"] not in POOL_HEAVY or not tasks.is_strict_class(c["spec"]):
            continue
        pop = c["cfg"]["population_size"]
        for mode in ("thread", "process"):
            k = (c["opt"], mode)
            if k in corner_need:
                w = rng.choice([x for x in (pop - 1, pop, pop + 1, 16, 16) if 1 <= x <= 16])
                items.append({"i": i, "mode": mode, "workers": w, "delay": {"salt": f"{seed}-{i}-c", "max_ms": 1.0, "p": 0.3}})
                corner_need[k] -= 1
                if corner_need[k] == 0:
                    del corner_need[k]
                break
    if tier == "thorough":
        # two deliberately SLOW pooled batches (more than 30 s of wall-clock for the initial population): results must be gathered
        # however long the evaluations take (a gather with a time limit would drop the late ones)
        n_slow = 0
        for i in idx:
            c = universe.case(i)
            if n_slow >= 2:
                break
            if c["opt"] in ("ParticleSwarmOptimization", "GreyWolfOptimization", "WhalesOptimization") and tasks.is_strict_class(c["spec"]) \
                    and c["cfg"]["max_cycles"] == 1 and c["cfg"]["population_size"] == 20:
                items.append({"i": i, "mode": ("thread", "process")[n_slow], "workers": 2, "delay": {"fixed_ms": 3300, "salt": "slow"}})
                n_slow += 1
    return items


def check(prop, tier, seed):
    rep = Report(prop, tier, seed)
    items = make_items(tier, seed)
    pairs = common.run_campaign(rep, items, opts={"record_args": True}, per_item_s=40)
    counters = collections.Counter()
    opts_seen = {"thread": set(), "process": set()}
    perms = set()
    workers_seen = collections.Counter()
    for item, obs in pairs:
        counters[obs["outcome"]] += 1
        if obs["outcome"] == "timeout":
            rep.lost += 1
            continue
        st = obs["stats"]
        if obs["outcome"] == "ok":
            opts_seen[obs["mode"]].add(obs["opt"])
            workers_seen[f"{obs['mode']}/{obs['workers']}"] += 1
            if st.get("pool_ops", 0) > 0:
                rep.distinct.add(common.item_label(item))
        for k in ("yields_injected", "pool_ops", "pool_nonidentity", "pool_execs", "pool_completed_out_of_order", "greedy_ops", "init_points", "init_agents_matched", "calls", "agents", "recorded_args"):
            counters[k] += st.get(k, 0) or 0
        for p in st.get("perms", []) + st.get("completion_orders", []):
            perms.add(tuple(p))
        for v in obs["viol"].get("C11", []):
            rep.violation(v["key"], f"[{obs['mode']}, {obs['workers']} workers] " + v["detail"], replay={"kind": "campaign", "item": item, "record_args": True})
        # a pooled run that fails while the pool is being created or fed (not inside an evaluation) is a failure of the
        # scheduling machinery itself; algorithm-internal exceptions are C06's business and are not judged here
        if obs["outcome"] == "exception" and obs["exc"]["func"].split(":")[-1] in PLUMBING:
            e = obs["exc"]
            rep.violation({"optimizer": obs["opt"], "kind": "pool-plumbing-exception", "exc": e["exc"], "func": e["func"]},
                          f"[{obs['mode']}, {obs['workers']} workers, population {universe.case(item['i'])['cfg']['population_size']}] "
                          f"{e['exc']}: {e['msg'][:160]} via {' > '.join(e['chain'])}", replay={"kind": "campaign", "item": item, "record_args": True})
        for rp in RESULT_PROPS:
            for v in obs["viol"].get(rp, []):
                key = dict(v["key"])
                key["kind"] = f"{rp}:{key['kind']}"
                rep.violation(key, f"[{obs['mode']}, {obs['workers']} workers] " + v["detail"], replay={"kind": "campaign", "item": item, "record_args": True})
    rep.extra.update({"outcomes": {k: counters[k] for k in ("ok", "exception", "timeout")},
                      "pooled_operations_observed": counters["pool_ops"],
                      "pooled_operations_completed_out_of_order": counters["pool_completed_out_of_order"],
                      "pooled_operations_gathered_out_of_order": counters["pool_nonidentity"],
                      "distinct_nonidentity_completion_orders_sampled": len(perms),
                      "pooled_greedy_selections_checked": counters["greedy_ops"],
                      "line_level_yields_injected_in_pool_threads": counters["yields_injected"],
                      "initial_agents_matched_to_evaluations": counters["init_agents_matched"],
                      "initial_points_checked_for_duplicates": counters["init_points"],
                      "objective_calls_recorded": counters["recorded_args"], "agents_checked": counters["agents"],
                      "optimizers_thread": len(opts_seen["thread"]), "optimizers_process": len(opts_seen["process"]),
                      "mode_workers": dict(workers_seen)})
    for item, obs in pairs[:4]:
        if obs["outcome"] == "ok":
            rep.sample({"item": item, "optimizer": obs["opt"], "pool_ops": obs["stats"].get("pool_ops"),
                        "completion_orders": obs["stats"].get("perms")})
    rep.rule = ("continuous-task cases (plus one or more integer-coded cases) of every optimizer from the audited universe, run in thread mode (1-16 workers) and "
                "process mode with seeded 0-3 ms delays inside the objective; oracles: membership / cost truth / best / size "
                "on the result, futures submitted == results gathered and completion order is a permutation for every pooled "
                "operation, every initial agent matched to an evaluation of its position, pooled greedy selection == "
                "element-wise serial outcome, randomly drawn initial agents pairwise distinct; non-trivial = completed run "
                "with at least one pooled operation observed")
    full = tier != "quick" or True
    rep.require("optimizers_thread", len(opts_seen["thread"]), 80)
    rep.require("optimizers_process", len(opts_seen["process"]), 70)
    rep.require("pooled_operations_observed", counters["pool_ops"], 200)
    rep.require("pooled_operations_completed_out_of_order", counters["pool_completed_out_of_order"], 20)
    rep.require("pooled_greedy_selections_checked", counters["greedy_ops"], 5)
    rep.require("initial_agents_matched_to_evaluations", counters["init_agents_matched"], 2000)
    return rep.finish()


def replay(prop, data):
    from .. import campaign
    item = data["replay"]["item"]
    for _ in range(20):
        obs = campaign.work(item, {"record_args": True})
        vs = [v for p in ("C11",) + RESULT_PROPS for v in obs.get("viol", {}).get(p, [])]
        if vs:
            print(f"[{prop}] replay: {vs[0]['detail']}")
            return True
    return False
