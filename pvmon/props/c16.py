"""C16 - selection helpers return exactly the best / worst members asked for (DESIGN C16).
Real helpers are called on enumerated and random populations; the oracle is an executable reference model over object
identities."""
import itertools
import random

import numpy as np

from .. import env, runner
from ..report import Report
from ..runner import Lost
import pyvolutionary as pv
from pyvolutionary import helpers as H
from pyvolutionary import Agent, TaskType
from pyvolutionary.abstract import OptimizationAbstract
from pyvolutionary.models import BaseOptimizationConfig

INF = float("inf")
ALPHABET = [-INF, -1.5, 0.0, 2.0, 2.0000000000000004, INF]      # incl. two costs one ulp apart (near-tie, not a tie)


class Mini(OptimizationAbstract):
    def optimization_step(self):
        pass

    def set_config_parameters(self, parameters):
        self._config = BaseOptimizationConfig(**parameters)


def mk_pop(costs):
    return [Agent(position=[float(i)], cost=c, fitness=0.5) for i, c in enumerate(costs)]


def better(a, b, tt):
    return a < b if tt == "min" else a > b


def check_pop(bag, costs, rng, n_values=None):
    size = len(costs)
    for tt in ("min", "max"):
        T = TaskType(tt)
        pop = mk_pop(costs)
        orig = list(pop)

        def unchanged():
            return len(pop) == len(orig) and all(a is b for a, b in zip(pop, orig)) and [a.cost for a in pop] == list(costs)

        def viol(fn, law, detail):
            if len(bag["viol"]) < 40:
                bag["viol"].append({"key": {"component": fn, "law": law}, "detail": f"costs={costs} dir={tt}: {detail}",
                                    "costs": [repr(c) for c in costs]})

        def members(res, fn):
            ids = [id(a) for a in res]
            if len(set(ids)) != len(ids) or any(not any(a is b for b in orig) for a in res):
                viol(fn, "members", f"result is not a sub-multiset of the population (costs {[a.cost for a in res]})")
                return False
            return True

        # sort_by_cost / indexes
        bag["n"] += 1
        s = H.sort_by_cost(pop, T)
        if members(s, "sort_by_cost") and (len(s) != size or any(better(s[i + 1].cost, s[i].cost, tt) for i in range(size - 1))):
            viol("sort_by_cost", "order", f"returned costs {[a.cost for a in s]}")
        if tt == "min":
            s0 = H.sort_by_cost(pop)
            if [a.cost for a in s0] != sorted(costs):
                viol("sort_by_cost", "order", f"default direction returned {[a.cost for a in s0]}")
        bag["n"] += 1
        si = H.sort_by_cost_indexes(pop, T)
        if sorted(si) != list(range(size)) or any(better(costs[si[i + 1]], costs[si[i]], tt) for i in range(size - 1)):
            viol("sort_by_cost_indexes", "order", f"returned {si}")
        if not unchanged():
            viol("sort_by_cost", "caller-list-mutated", "the caller's list changed")
        ns = n_values if n_values is not None else range(0, size + 1)
        for n in ns:
            # counts arrive as Python ints or as numpy integer scalars (np.sum(mask), rng.integers(...))
            n = n if (n + size) % 3 else rng.choice([np.int64(n), np.int32(n), np.intp(n)])
            # best_agents
            bag["n"] += 1
            r = H.best_agents(pop, n, T)
            if members(r, "best_agents"):
                rest = [a for a in orig if not any(a is b for b in r)]
                if len(r) != n:
                    viol("best_agents", "length", f"n={n}: {len(r)} returned")
                elif any(better(r[i + 1].cost, r[i].cost, tt) for i in range(len(r) - 1)):
                    viol("best_agents", "order", f"n={n}: not best-first {[a.cost for a in r]}")
                elif any(better(o.cost, x.cost, tt) for o in rest for x in r):
                    viol("best_agents", "optimality", f"n={n}: returned {[a.cost for a in r]}, omitted {[a.cost for a in rest]}")
            bag["n"] += 1
            ri = H.best_agents_indexes(pop, n, T)
            if len(set(ri)) != len(ri) or any(not (0 <= i < size) for i in ri) or [costs[i] for i in ri] != [a.cost for a in r]:
                viol("best_agents_indexes", "same-costs", f"n={n}: indexes {ri} -> {[costs[i] for i in ri if 0 <= i < size]}, agents {[a.cost for a in r]}")
            # worst_agents
            bag["n"] += 1
            w = H.worst_agents(pop, n, T)
            if members(w, "worst_agents"):
                rest = [a for a in orig if not any(a is b for b in w)]
                if len(w) != n:
                    viol("worst_agents", "length", f"n={n}: {len(w)} returned")
                elif any(better(w[i + 1].cost, w[i].cost, tt) for i in range(len(w) - 1)):
                    viol("worst_agents", "order", f"n={n}: not worst-last {[a.cost for a in w]}")
                elif any(better(x.cost, o.cost, tt) for o in rest for x in w):
                    viol("worst_agents", "optimality", f"n={n}: returned {[a.cost for a in w]}, omitted {[a.cost for a in rest]}")
            bag["n"] += 1
            wi = H.worst_agents_indexes(pop, n, T)
            if len(set(wi)) != len(wi) or any(not (0 <= i < size) for i in wi) or [costs[i] for i in wi] != [a.cost for a in w]:
                viol("worst_agents_indexes", "same-costs", f"n={n}: indexes {wi}, agents {[a.cost for a in w]}")
            # special_agents
            bag["n"] += 1
            m = rng.randint(0, size)
            sb, sw = H.special_agents(pop, n_best=n, n_worst=m, task_type=T)
            wm = H.worst_agents(pop, m, T)
            if [id(a) for a in sb] != [id(a) for a in r] and [a.cost for a in sb] != [a.cost for a in r]:
                viol("special_agents", "best-part", f"n_best={n}: {[a.cost for a in sb]} vs best_agents {[a.cost for a in r]}")
            if [a.cost for a in sw] != [a.cost for a in wm] or not members(sw, "special_agents") or not members(sb, "special_agents"):
                viol("special_agents", "worst-part", f"n_worst={m}: {[a.cost for a in sw]} vs worst_agents {[a.cost for a in wm]}")
            if tt == "min":
                bag["n"] += 1
                st = H.sort_and_trim(pop, n)
                if members(st, "sort_and_trim") and [a.cost for a in st] != sorted(costs)[:n]:
                    viol("sort_and_trim", "n-cheapest-ascending", f"n={n}: {[a.cost for a in st]}")
            if not unchanged():
                viol("helpers", "caller-list-mutated", f"the caller's list changed after the n={n} calls")
                pop = list(orig)
        # single best / worst
        bag["n"] += 1
        b = H.best_agent(pop, T)
        w = H.worst_agent(pop, T)
        if not any(b is a for a in orig) or any(better(a.cost, b.cost, tt) for a in orig):
            viol("best_agent", "optimality", f"returned cost {b.cost}")
        if not any(w is a for a in orig) or any(better(w.cost, a.cost, tt) for a in orig):
            viol("worst_agent", "optimality", f"returned cost {w.cost}")
        bi, wi = H.best_agent_index(pop, T), H.worst_agent_index(pop, T)
        if not (0 <= bi < size) or costs[bi] != b.cost or not (0 <= wi < size) or costs[wi] != w.cost:
            viol("best_agent_index", "same-costs", f"indexes {bi},{wi} vs costs {b.cost},{w.cost}")
        if not unchanged():
            viol("helpers", "caller-list-mutated", "the caller's list changed after best/worst_agent")


def check_none_direction(bag, costs, rng):
    """task_type=None is accepted by every signature (`TaskType | None`).  The property does not say which direction None
    requests, so only the direction-independent law is judged: the `_indexes` variants designate agents with the same costs
    as the agent-returning variants called with the same arguments."""
    size = len(costs)
    pop = mk_pop(costs)

    def viol(fn, detail):
        if len(bag["viol"]) < 40:
            bag["viol"].append({"key": {"component": fn, "law": "same-costs"}, "detail": f"costs={costs} dir=None: {detail}",
                                "costs": [repr(c) for c in costs]})
    bag["n"] += 1
    try:
        s, si = H.sort_by_cost(pop, None), H.sort_by_cost_indexes(pop, None)
        if [a.cost for a in s] != [costs[i] for i in si]:
            viol("sort_by_cost_indexes", f"sort_by_cost -> {[a.cost for a in s]}, indexes {si} -> {[costs[i] for i in si]}")
        for n in sorted({0, 1, size, rng.randint(0, size)}):
            r, ri = H.best_agents(pop, n, None), H.best_agents_indexes(pop, n, None)
            if [a.cost for a in r] != [costs[i] for i in ri]:
                viol("best_agents_indexes", f"n={n}: agents {[a.cost for a in r]}, indexes {ri} -> {[costs[i] for i in ri]}")
            w, wi = H.worst_agents(pop, n, None), H.worst_agents_indexes(pop, n, None)
            if [a.cost for a in w] != [costs[i] for i in wi]:
                viol("worst_agents_indexes", f"n={n}: agents {[a.cost for a in w]}, indexes {wi} -> {[costs[i] for i in wi]}")
        if H.best_agent(pop, None).cost != costs[H.best_agent_index(pop, None)] or H.worst_agent(pop, None).cost != costs[H.worst_agent_index(pop, None)]:
            viol("best_agent_index", "best_agent / worst_agent and their _index variants disagree")
    except Exception as e:
        viol("helpers", f"raised {e!r}")


def check_greedy(bag, old_costs, new_costs, rng, pool_modes=()):
    """_greedy_select_agent / _greedy_select_population / _extend_and_trim / _replace_and_trim through a minimal
    concrete optimizer"""
    def viol(fn, law, detail):
        if len(bag["viol"]) < 40:
            bag["viol"].append({"key": {"component": fn, "law": law}, "detail": f"old={old_costs} new={new_costs}: {detail}",
                                "costs": [repr(c) for c in old_costs + new_costs]})
    size = len(old_costs)
    P = rng.randint(1, size + len(new_costs) + 1)
    o = Mini(BaseOptimizationConfig(population_size=P, max_cycles=1))
    old = [Agent(position=[float(i), 0.0], cost=c, fitness=0.25) for i, c in enumerate(old_costs)]
    new = [Agent(position=[float(i), 1.0], cost=c, fitness=0.75) for i, c in enumerate(new_costs)]
    # agent level
    for a, b in zip(old, new):
        bag["n"] += 1
        r = o._greedy_select_agent(a, b)
        if b.cost < a.cost:
            if not (r is b or r == b):
                viol("_greedy_select_agent", "challenger-strictly-cheaper-wins", f"incumbent {a.cost}, challenger {b.cost}: kept {r.cost}")
        else:
            if not (r == a) or r.position != a.position:
                viol("_greedy_select_agent", "incumbent-kept-on-tie-or-worse", f"incumbent {a.cost}, challenger {b.cost}: got cost {r.cost} pos {r.position}")
    # population level (same length populations), serial
    if len(new) == size:
        for mode in ("serial",) + tuple(pool_modes):
            bag["n"] += 1
            o._population = list(old)
            from pyvolutionary.enums import ModeSolver
            o._mode = ModeSolver(mode)
            o._workers = 3
            keep_old, keep_new = list(old), list(new)
            o._greedy_select_population(new)
            so = sorted(old_costs)
            sn = sorted(new_costs)
            want = sorted(n if n < x else x for x, n in zip(so, sn))
            got = sorted(a.cost for a in o._population)
            if got != want:
                viol("_greedy_select_population", "element-wise-on-sorted", f"[{mode}] kept {got}, expected {want}")
            if any(a is not b for a, b in zip(new, keep_new)) or [a.cost for a in new] != list(new_costs):
                viol("_greedy_select_population", "caller-list-mutated", "the caller's new_population list was reordered")
            # incumbents kept on ties: every kept agent with an old cost that also is a tie must come from `old`
            for a in o._population:
                if a.cost in so and a.cost in sn:
                    pass
    # extend and trim
    bag["n"] += 1
    o._population = list(old)
    o._extend_and_trim_population(list(new))
    want = sorted(old_costs + new_costs)[:P] if len(new) else None
    got = [a.cost for a in o._population]
    if len(new) == 0:
        if got != list(old_costs) and got != sorted(old_costs)[:P]:
            viol("_extend_and_trim_population", "empty-extension", f"population became {got}")
    elif got != want:
        viol("_extend_and_trim_population", "n-cheapest-ascending", f"population_size={P}: {got}, expected {want}")
    elif any(not any(a is b for b in old + new) for a in o._population):
        viol("_extend_and_trim_population", "members", "result holds agents that are neither old nor new")
    bag["n"] += 1
    o._population = list(old)
    newl = list(new)
    o._replace_and_trim_population(newl)
    got = [a.cost for a in o._population]
    if got != sorted(new_costs)[:P]:
        viol("_replace_and_trim_population", "n-cheapest-ascending", f"population_size={P}: {got}, expected {sorted(new_costs)[:P]}")
    if [a.cost for a in newl] != list(new_costs):
        viol("_replace_and_trim_population", "caller-list-mutated", "the caller's list was reordered")


def work(item, opts):
    rng = random.Random(f"c16/{item['seed']}")
    bag = {"n": 0, "viol": [], "pops": 0}
    for costs in item.get("vectors", []):
        check_pop(bag, list(costs), rng)
        check_none_direction(bag, list(costs), rng)
        bag["pops"] += 1
        if len(costs) <= 3:
            for new in itertools.product(ALPHABET, repeat=len(costs)):
                check_greedy(bag, list(costs), list(new), rng)
        else:
            check_greedy(bag, list(costs), [rng.choice(ALPHABET) for _ in costs], rng)
            check_greedy(bag, list(costs), [rng.choice(ALPHABET) for _ in range(rng.randint(0, 5))], rng)
    for _ in range(item.get("n_rand", 0)):
        size = rng.choice([1, 2, 5, 7, 20, 50, 200])
        pool = [rng.choice([-INF, INF, 0.0, -0.0, 1e-300, -1e300]) for _ in range(3)] + [round(rng.gauss(0, 3), rng.choice([0, 1, 6])) for _ in range(size)]
        pool += [pool[-1] + 1e-13, pool[-1] * (1 + 2e-16), pool[-2] - 1e-15]      # near-ties
        costs = [rng.choice(pool) for _ in range(size)]
        check_pop(bag, costs, rng, n_values=sorted({0, 1, size, rng.randint(0, size), rng.randint(0, size)}))
        check_none_direction(bag, costs, rng)
        bag["pops"] += 1
        check_greedy(bag, costs, [rng.choice(pool) for _ in range(size)], rng,
                     pool_modes=("thread",) if rng.random() < 0.2 else ())
        check_greedy(bag, costs, [rng.choice(pool) for _ in range(rng.randint(0, size + 3))], rng)
    return {"n": bag["n"], "pops": bag["pops"], "viol": bag["viol"]}


def check(prop, tier, seed):
    rep = Report(prop, tier, seed)
    max_size = 4 if tier == "quick" else 6
    vectors = [v for L in range(1, max_size + 1) for v in itertools.product(ALPHABET, repeat=L)]
    # multiset alphabet {-inf, -1.5, 0, 0, 2, 2, +inf}: ties arise from repeated letters in product()
    chunks = 48
    items = [{"seed": f"{seed}/{k}", "vectors": vectors[k::chunks], "n_rand": 8 if tier == "quick" else 600} for k in range(chunks)]
    res = runner.run_parallel("pvmon.props.c16", "work", items, {}, batch=1)
    pops = 0
    for it, r in zip(items, res):
        if isinstance(r, Lost):
            rep.lost += 1
            continue
        rep.evaluations += r["n"]
        pops += r["pops"]
        for v in r["viol"]:
            rep.violation(v["key"], v["detail"], replay={"kind": "c16", "item": {**it, "vectors": [], "n_rand": 0}, "costs": v["costs"]})
    for k in range(pops):
        rep.distinct.add(k)
    rep.extra["populations"] = pops
    rep.extra["exhaustive_part"] = (f"all {len(vectors)} cost vectors of size 1..{max_size} over {ALPHABET} x all n in "
                                    f"0..size x both directions; all challenger vectors for sizes <= 3")
    rep.sample({"costs": [repr(c) for c in vectors[len(vectors) // 3]], "n": "0..size", "directions": ["min", "max"]})
    rep.sample({"costs": [repr(c) for c in vectors[-7]], "n": "0..size", "directions": ["min", "max"]})
    rep.rule = ("real helpers called on each population; reference model over object identity: sub-multiset, length n, "
                "ordered best-first / worst-last, no omitted agent strictly better (worse), index variants designate "
                "the same cost sequence, caller's list untouched, greedy keeps the incumbent on ties; distinct = "
                "populations (cost vectors) exercised; evaluations = helper calls judged")
    rep.require("helper_calls", rep.evaluations, 20000)
    if rep.lost:
        rep.inconclusive.append(f"{rep.lost} chunks lost")
    return rep.finish()


def replay(prop, data):
    costs = [float(c) for c in data["replay"]["costs"]]
    bag = {"n": 0, "viol": [], "pops": 0}
    rng = random.Random(1)
    check_pop(bag, costs, rng)
    check_none_direction(bag, costs, rng)
    h = len(costs) // 2
    if h:
        check_greedy(bag, costs[:h], costs[h:], rng)
    check_greedy(bag, costs, costs[::-1], rng)
    for v in bag["viol"]:
        print(f"[{prop}] replay: {v['detail']}")
    return bool(bag["viol"])
