"""Shared machinery of the campaign-based checks: choose cases, run them 16-way, collect one property's violations."""
import collections
import json
import os
import random

from .. import env, runner, universe, tasks
from ..report import Report, known_findings
from ..runner import Lost

QUICK_N = int(os.environ.get("PVMON_QUICK_N", "2500"))
THOROUGH_N = int(os.environ.get("PVMON_THOROUGH_N", "40000"))

WORKER_CHOICES = list(range(1, 17))


def tier_n(tier, quick=None, thorough=None):
    return (quick or QUICK_N) if tier == "quick" else (thorough or THOROUGH_N)


def pinned_probes(prop):
    """universe indices pinned to the known findings of this property: exercised on every run"""
    out = []
    for ent in known_findings():
        if ent.get("status") == "known" and ent.get("property") == prop and ent.get("probe") is not None:
            p = ent["probe"]
            out.append(p)
    return out


def degenerate(case):
    """stress stratum of the universe: objectives with exact zeros / plateaus / ties, or optima sitting on a zero bound -
    where 0/0, inf*0 and tie handling of the update rules are exercised"""
    spec = case["spec"]
    fams = {o["fam"] for o in spec["obj"]}
    if fams & {"hinge", "plateau"}:
        return True
    for v in spec["vars"]:
        if v[0] == "c" and 0.0 in (v[1], v[2]):
            return True
        if v[0] in ("cm", "mo") and (0.0 in v[1] or 0.0 in v[2]):
            return True
    return False


def choose_items(prop, tier, seed, n, select=None, mode_fraction=0.0, delay=False, only_strict_modes=False,
                 oversample=4, prior_fraction=0.0, mode_cap=2000, stress_fraction=0.0, stress_strict=False):
    """-> list of work items (universe indices, or dicts for thread/process variants)"""
    rng = random.Random(f"{universe.UNIVERSE_VERSION}/items/{prop}/{tier}/{seed}")
    idx = universe.sample_indices(seed, min(universe.UNIVERSE_SIZE, n * (oversample if select else 1)), tag=prop + tier)
    items = []
    n_stress = int(n * stress_fraction)
    if n_stress:
        # part of the sample is drawn from the stress stratum (still audited universe indices, still chosen by the seed)
        for i in universe.sample_indices(seed, min(universe.UNIVERSE_SIZE, n_stress * 12), tag=prop + tier + "stress"):
            if len(items) >= n_stress:
                break
            c = universe.case(i)
            if degenerate(c) and (not stress_strict or tasks.is_strict_class(c["spec"])) and (select is None or select(c)):
                items.append(i)
    taken = set(items)
    for i in idx:
        if len(items) >= n:
            break
        if i in taken or (select is not None and not select(universe.case(i))):
            continue
        items.append(i)
    out = []
    n_mode = 0
    for i in items:
        # thread/process variants are not reproducible, hence not covered by the universe audit: their number is capped
        # so that the exposure to input-dependent numerics of individual algorithms never seen before stays small
        if mode_fraction and n_mode < mode_cap and rng.random() < mode_fraction:
            n_mode += 1
            c = universe.case(i)
            if only_strict_modes and not tasks.is_strict_class(c["spec"]):
                out.append(i)
                continue
            mode = rng.choice(["thread", "thread", "process"])
            it = {"i": i, "mode": mode, "workers": rng.choice(WORKER_CHOICES if mode == "thread" else [1, 2, 3, 4, 5, 6, 11, 16])}
            if delay:
                it["delay"] = {"salt": f"{seed}-{i}", "max_ms": 2.0, "p": 0.3}
            out.append(it)
        elif prior_fraction and rng.random() < prior_fraction:
            out.append({"i": i, "prior": rng.choice([1, 1, 2]), "reconf": rng.random() < 0.4,
                        "prior_abort": rng.random() < 0.3})   # instance already used (30 %: the earlier run was aborted mid-way)
        else:
            out.append(i)
    for p in pinned_probes(prop):
        out.append(p)
    return out


def item_label(item):
    if isinstance(item, int):
        return f"u{item}"
    if "e" in item:
        return f"e{item['e']}/{item.get('mode', 'serial')}"
    if "b" in item:
        return f"b{item['b']}"
    if "n" in item:
        return f"n{item['n']}"
    if "v" in item:
        return f"v{item['v']}"
    if "s" in item:
        return f"s{item['s']}"
    if "y" in item:
        return f"y{item['y']}"
    if "i" in item:
        return f"u{item['i']}/{item.get('mode', 'serial')}/{item.get('workers')}" + (f"/prior{item['prior']}" if item.get("prior") else "")
    return json.dumps(item, sort_keys=True)[:80]


def run_campaign(rep: Report, items, opts=None, module="pvmon.campaign", func="work", per_item_s=20.0):
    """runs items, fills generic counters of the report, returns list of (item, obs) for completed runs"""
    # process-mode items are heavier (each opens pools): keep them in smaller batches, fewer concurrent workers
    heavy = [it for it in items if isinstance(it, dict) and it.get("mode") == "process"]
    light = [it for it in items if not (isinstance(it, dict) and it.get("mode") == "process")]
    done = []
    res = runner.run_parallel(module, func, light, opts or {}, per_item_s=per_item_s)
    done.extend(zip(light, res))
    if heavy:
        res = runner.run_parallel(module, func, heavy, opts or {}, jobs=max(2, runner.JOBS // 4), per_item_s=per_item_s * 2)
        done.extend(zip(heavy, res))
    out = []
    for item, obs in done:
        rep.evaluations += 1
        if isinstance(obs, Lost):
            rep.lost += 1
            continue
        out.append((item, obs))
    if rep.evaluations and rep.lost > 0.02 * rep.evaluations:
        rep.inconclusive.append(f"{rep.lost} of {rep.evaluations} cases lost to the watchdog / dead workers")
    return out


def with_context(key, obs):
    """violations met on a boundary-battery case carry the parameter that was moved to the edge, so that a finding which
    only exists at that parameter value is recorded (and matched) as such and does not hide the same symptom elsewhere"""
    if str(obs.get("cfg_class", "")).startswith("boundary:"):
        return {**key, "context": obs["cfg_class"]}
    return key


def collect(rep: Report, prop, pairs, nontrivial=None):
    """copy this property's violations into the report; count distinct non-trivial cases"""
    counters = collections.Counter()
    opts_seen = set()
    kinds = collections.Counter()
    modes = collections.Counter()
    for item, obs in pairs:
        counters[obs["outcome"]] += 1
        if obs["outcome"] == "timeout":
            rep.lost += 1
            continue
        opts_seen.add(obs["opt"])
        kinds[obs["kind"]] += 1
        modes[obs["mode"]] += 1
        for k, v in obs.get("stats", {}).items():
            if isinstance(v, (int, float)) and not isinstance(v, bool):
                counters["sum_" + k] += v
        if (nontrivial(obs) if nontrivial else obs["outcome"] == "ok" and obs["stats"].get("steps", 0) >= 1):
            rep.distinct.add(item_label(item))
        for v in obs.get("viol", {}).get(prop, []):
            rep.violation(with_context(v["key"], obs), v["detail"], replay={"kind": "campaign", "item": item, "mode": obs["mode"]})
    # H-cov: executable lines of the repository reached by this run's workload
    reached = collections.defaultdict(set)
    for item, obs in pairs:
        for fl in obs.get("cov", []):
            f, l = fl.rsplit(":", 1)
            reached[f].add(int(l))
    if reached:
        from .. import hooks
        ex = hooks.executable_lines()
        core = {}
        alg = [0, 0]
        for f, lines in sorted(ex.items()):
            r = len(reached.get(f, set()) & lines)
            if "/" not in f and "\\" not in f:
                core[f] = [r, len(lines)]
            else:
                alg[0] += r
                alg[1] += len(lines)
        core["<84 algorithm packages>"] = alg
        rep.extra["executable_lines_reached"] = core
    rep.extra["outcomes"] = dict(counters)
    rep.extra["optimizers_observed"] = len(opts_seen)
    rep.extra["task_kinds"] = dict(kinds)
    rep.extra["modes"] = dict(modes)
    return counters, opts_seen
