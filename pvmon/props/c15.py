"""C15 - the recorded history is faithful and the trend utilities agree with it (DESIGN C15).
(a) per-cycle deep snapshots (H-step) vs result.evolution read after optimize() returned; (b) the real agent_trend /
agent_position / best_agent_trend / best_agent_position vs a direct ranking of each generation in the task's direction."""
import random

from .. import env, universe, run as runmod
from ..report import Report
from ..run import feq, pos_eq
from . import common
import pyvolutionary as pv


def utils_oracle(obs, result, minmax, rng):
    """appends C15 violations to obs; returns number of utility outputs judged"""
    evo = result.evolution
    n_gen = len(evo)
    judged = 0
    min_size = min(len(g.agents) for g in evo)
    if min_size == 0:
        return 0

    def ranked(i):
        costs = [a.cost for a in evo[i].agents]
        if any(c != c for c in costs):
            return None
        return sorted(costs, reverse=(minmax == "max"))

    def viol(kind, detail):
        runmod._v(obs, "C15", {"kind": kind}, detail)

    idxs = sorted({0, min_size - 1, rng.randrange(min_size), rng.randrange(min_size)})
    subsets = [None, [n_gen - 1], [-1, 0, -n_gen], [rng.randrange(n_gen) for _ in range(rng.randint(1, 6))],
               sorted(range(n_gen), key=lambda _: rng.random())[: rng.randint(1, n_gen)]]
    for idx in idxs:
        for iters in subsets:
            its = list(range(n_gen)) if iters is None else iters
            # the requested iterations are handed over in the sequence types users have at hand (list, tuple, numpy integer
            # array, list of numpy integers, a range when contiguous); one-shot iterators are outside the documented
            # `list[int]` and are not used
            form = rng.randrange(5)
            if iters is not None:
                import numpy as _np
                if form == 1:
                    iters = tuple(iters)
                elif form == 2:
                    iters = _np.array(iters, dtype=_np.int64)
                elif form == 3:
                    iters = [_np.int32(i) for i in iters]
                elif form == 4 and len(its) > 1 and all(b - a == 1 for a, b in zip(its, its[1:])):
                    iters = range(its[0], its[-1] + 1)
            try:
                trend = pv.agent_trend(result, idx, iters)
                posn = pv.agent_position(result, idx, iters)
            except Exception as e:
                viol("utility-exception", f"agent_trend/agent_position(idx={idx}, iters={iters}) raised {e!r}")
                return judged
            if len(trend) != len(its) or len(posn) != len(its):
                viol("utility-length", f"idx={idx} iters={iters}: {len(trend)}/{len(posn)} entries for {len(its)} iterations")
                return judged
            for t, p, i in zip(trend, posn, its):
                i = i % n_gen          # negative iteration numbers count from the end, as everywhere in Python
                r = ranked(i)
                if r is None:
                    continue
                judged += 1
                if not feq(t, r[idx]):
                    viol("trend-rank", f"{minmax} task: agent_trend(idx={idx}) at iteration {i} = {t!r}; the idx-th best cost "
                                       f"of that generation is {r[idx]!r} (costs {r[:4]}...)")
                    return judged
                holders = [a.position for a in evo[i].agents if feq(a.cost, r[idx])]
                if not any(pos_eq(p, h) for h in holders):
                    viol("position-rank", f"{minmax} task: agent_position(idx={idx}) at iteration {i} = {p!r} is not a position "
                                          f"carrying the idx-th best cost {r[idx]!r}")
                    return judged
    try:
        bt = pv.best_agent_trend(result)
        bp = pv.best_agent_position(result)
        bt2 = pv.best_agent_trend(result, [n_gen - 1, 0])
    except Exception as e:
        viol("utility-exception", f"best_agent_trend raised {e!r}")
        return judged
    judged += 1
    if len(bt) != n_gen or len(bp) != n_gen:
        viol("utility-length", f"best_agent_trend has {len(bt)} entries for {n_gen} generations")
    elif ranked(n_gen - 1) is not None:
        if not feq(bt[-1], result.best_solution.cost):
            viol("best-trend-last", f"{minmax} task: last entry of best_agent_trend = {bt[-1]!r}, best_solution.cost = "
                                    f"{result.best_solution.cost!r}")
        elif not feq(bt2[0], bt[-1]) or (ranked(0) is not None and not feq(bt2[1], bt[0])):
            viol("trend-rank", f"best_agent_trend(iters=[last, 0]) = {bt2!r} disagrees with the full trend {bt[-1]!r}, {bt[0]!r}")
        else:
            for i in range(n_gen):
                r = ranked(i)
                if r is not None and not feq(bt[i], r[0]):
                    viol("trend-rank", f"{minmax} task: best_agent_trend[{i}] = {bt[i]!r}, best cost of that generation {r[0]!r}")
                    break
    return judged


def check(prop, tier, seed):
    rep = Report(prop, tier, seed)
    n = common.tier_n(tier)
    # long runs are where an in-place update of a surviving agent would rewrite the past
    items = common.choose_items(prop, tier, seed, n, select=lambda c: c["cfg"]["max_cycles"] >= 3, mode_fraction=0.05,
                                stress_fraction=0.3)
    items += [{"b": k} for k in range(len(universe.battery()))]       # ties / plateaus: where "walk across the plateau" tweaks bite
    items += [{"s": k} for k in range(len(universe.small_population_battery()))]
    items += [{"y": k} for k in range(len(universe.types_battery()))]
    items += [{"v": k} for k in universe.boundary_indices()]
    pairs = common.run_campaign(rep, items, opts={"utils": True, "seed": seed})
    counters, opts_seen = common.collect(rep, prop, pairs, lambda o: o["outcome"] == "ok" and o["stats"].get("snap_agents", 0) > 0)
    rep.extra.update({"snapshot_agents_compared": counters["sum_snap_agents"], "utility_outputs_judged": counters["sum_utils_judged"],
                      "generations_observed": counters["sum_generations"]})
    for item, obs in pairs[:3]:
        rep.sample({"item": item, "optimizer": obs["opt"], "minmax": obs["minmax"], "generations": obs["stats"].get("generations"),
                    "snapshot_agents": obs["stats"].get("snap_agents"), "utility_outputs": obs["stats"].get("utils_judged")})
    rep.rule = ("campaign cases with >= 3 cycles; (a) deep (position, cost, fitness) snapshot of the live population after "
                "initialisation and after every cycle vs result.evolution[k] after optimize() returned; (b) real trend "
                "utilities for ranks {0, last, random} and iteration subsets (None, last, repeated, shuffled) vs direct "
                "ranking in the task's direction (ties: any position carrying the cost; generations with NaN costs skipped); "
                "non-trivial = completed run whose snapshots were compared")
    rep.require("optimizers_observed", len(opts_seen), 80)
    rep.require("snapshot_agents_compared", counters["sum_snap_agents"], 100000 if n >= 2000 else 100)
    rep.require("utility_outputs_judged", counters["sum_utils_judged"], 20000 if n >= 2000 else 100)
    return rep.finish()


def replay(prop, data):
    from .. import campaign
    item = data["replay"]["item"]
    obs = campaign.work(item, {"utils": True, "seed": data.get("seed", 0)})
    vs = obs.get("viol", {}).get(prop, [])
    for v in vs:
        print(f"[{prop}] replay: {v['detail']}")
    return bool(vs)
