"""16-way fan-out over worker subprocesses (subprocess.Popen, never multiprocessing.Pool: see DESIGN 1)."""
import json
import os
import shutil
import signal
import subprocess
import sys
import tempfile
import time

from . import env

PY = sys.executable
JOBS = int(os.environ.get("PVMON_JOBS", str(max(2, min(16, os.cpu_count() or 4)))))


class Lost:
    """marker for an item that produced no output (worker died / watchdog) - inconclusive, never a violation"""
    def __init__(self, why):
        self.why = why

    def __repr__(self):
        return f"Lost({self.why})"


def _spawn(workdir, n, module, func, items, opts):
    jobfile = os.path.join(workdir, f"job{n}.json")
    outfile = os.path.join(workdir, f"out{n}.jsonl")
    with open(jobfile, "w") as f:
        json.dump({"module": module, "func": func, "items": items, "opts": opts}, f)
    e = dict(os.environ)
    e["PYTHONPATH"] = env.VERIF + os.pathsep + e.get("PYTHONPATH", "")
    e["PYTHONDONTWRITEBYTECODE"] = "1"
    e.setdefault("PYTHONHASHSEED", "0")
    e["PVMON_WORKDIR"] = workdir
    p = subprocess.Popen([PY, "-m", "pvmon.worker", jobfile, outfile], cwd=workdir, env=e,
                         stdin=subprocess.DEVNULL, start_new_session=True)
    return p, outfile


def _kill(p):
    try:
        os.killpg(p.pid, signal.SIGKILL)
    except Exception:
        pass
    try:
        p.wait(timeout=10)
    except Exception:
        pass


def _read(outfile, n_items):
    outs = [None] * n_items
    if os.path.exists(outfile):
        with open(outfile) as f:
            for line in f:
                try:
                    rec = json.loads(line)
                except Exception:
                    continue
                outs[rec["k"]] = rec
    return outs


def _size(path):
    try:
        return os.path.getsize(path)
    except OSError:
        return 0


def run_parallel(module, func, items, opts=None, jobs=None, batch=None, per_item_s=20.0, min_timeout=240.0,
                 retry_lost=True, progress=None, stall_s=None):
    """-> list (same order as items) of outputs; an item whose worker died or timed out is a Lost marker.
    A harness error inside a worker raises RuntimeError here (a broken harness must not look like a pass)."""
    opts = opts or {}
    jobs = jobs or JOBS
    n = len(items)
    if n == 0:
        return []
    if batch is None:
        batch = max(1, min(400, -(-n // (jobs * 3))))
    workdir = tempfile.mkdtemp(prefix="pvmon.", dir=os.environ.get("PVMON_TMP", None))
    results = [None] * n
    try:
        batches = [(s, items[s:s + batch]) for s in range(0, n, batch)]
        pending = list(reversed(batches))
        running = []
        bn = 0
        while pending or running:
            while pending and len(running) < jobs:
                s, its = pending.pop()
                p, outfile = _spawn(workdir, bn, module, func, its, opts)
                bn += 1
                running.append([p, outfile, s, its, time.time(), max(min_timeout, per_item_s * len(its)), 0, time.time()])
            time.sleep(0.05)
            still = []
            stall = stall_s or max(240.0, per_item_s * 8)
            for ent in running:
                p, outfile, s, its, t0, tmo, last_size, last_change = ent
                rc = p.poll()
                now = time.time()
                sz = _size(outfile)
                if sz != last_size:
                    ent[6], ent[7] = sz, now
                    last_change = now
                # watchdog: overall batch budget, or no item finished for `stall` seconds (a hung pool, a deadlock)
                if rc is None and now - t0 < tmo and now - last_change < stall:
                    still.append(ent)
                    continue
                why = None
                if rc is None:
                    _kill(p)
                    why = "watchdog"
                elif rc != 0:
                    _kill(p)
                    why = f"worker exit {rc}"
                else:
                    _kill(p)   # reap stray pool children of the session, if any
                outs = _read(outfile, len(its))
                for k, rec in enumerate(outs):
                    if rec is None:
                        results[s + k] = Lost(why or "no output")
                    elif "harness_error" in rec:
                        raise RuntimeError(f"harness error in {module}.{func}: {rec['harness_error']}\n{rec.get('tb')}")
                    else:
                        results[s + k] = rec["out"]
                if progress:
                    progress(sum(r is not None for r in results), n)
            running = still
        if retry_lost:
            lost = [k for k, r in enumerate(results) if isinstance(r, Lost)]
            if lost and len(lost) <= 200:
                # the first lost item of a dead batch may be the culprit; re-run every lost item alone, once
                redo = run_parallel(module, func, [items[k] for k in lost], opts, jobs=jobs, batch=1,
                                    per_item_s=per_item_s, min_timeout=max(60.0, per_item_s * 3), retry_lost=False)
                for k, r in zip(lost, redo):
                    results[k] = r
        return results
    finally:
        for ent in (running if 'running' in dir() else []):
            _kill(ent[0])
        shutil.rmtree(workdir, ignore_errors=True)
