"""Harness-side instrumentation (monkeypatching at import time; no source hooks in /repo).

All wrappers are installed once per worker process on class attributes / module globals that every call path looks up
at call time, and consult the *current monitor* (CUR.mon); with no monitor they are pass-through.
"""
import copy
import collections
import os
import concurrent.futures as cf
import threading

import numpy as np

from . import env
import pyvolutionary.abstract as A
from pyvolutionary.abstract import OptimizationAbstract


class Monitor:
    """per-run, single-writer monitor state (the pooled wrappers append under the GIL / a lock)"""

    def __init__(self, attr=False):
        self.steps = 0
        self.init_calls = 0
        self.snaps = []            # deep (position, cost, fitness) snapshots: [0] after init, [k] after cycle k
        self.pool_ops = []         # {"kind", "submitted", "gathered", "perm"}
        self.pool_execs = []       # {"submitted", "completed": completion order of the futures} per executor
        self.greedy = []           # (old_sorted, new_sorted, result) of pooled/serial _greedy_select_population
        self.generate = []         # (n_requested, n_returned) of _generate_agents
        self.generated_init = []   # (.., positions) of the _generate_agents calls made while initialising
        self.init_args_mark = None  # number of objective calls seen when _init_population returned
        self.calllog = None
        self.lock = threading.Lock()
        # H-attr
        self.attr = attr
        self.armed = set()
        self.written = set()
        self.stale_reads = collections.Counter()
        self.phase = "pre"


class _Cur:
    mon = None


CUR = _Cur()
_INSTALLED = False


def _snap(self):
    return [(copy.deepcopy(a.position), a.cost, a.fitness) for a in self._population]


def _wrap_step(orig):
    def optimization_step(self, *args, **kwargs):
        m = CUR.mon
        if m is None:
            return orig(self, *args, **kwargs)
        m.steps += 1
        m.phase = f"cycle{m.steps}"
        r = orig(self, *args, **kwargs)
        m.snaps.append(_snap(self))
        return r
    optimization_step.__wrapped__ = orig
    optimization_step.__name__ = getattr(orig, "__name__", "optimization_step")
    optimization_step.__qualname__ = getattr(orig, "__qualname__", "optimization_step")
    return optimization_step


def _wrap_init_population(orig):
    def _init_population(self, *args, **kwargs):
        m = CUR.mon
        if m is None:
            return orig(self, *args, **kwargs)
        m.phase = "init"
        r = orig(self, *args, **kwargs)
        m.init_calls += 1
        snap = _snap(self)
        if m.init_calls == 1:
            m.snaps.append(snap)
        else:
            m.snaps[0] = snap
        if m.calllog is not None:
            m.init_args_mark = m.calllog.n
        return r
    _init_population.__wrapped__ = orig
    _init_population.__name__ = "_init_population"
    _init_population.__qualname__ = getattr(orig, "__qualname__", "_init_population")
    return _init_population


def _get_pool_results(executors):
    """same contract as helpers.get_pool_results (as_completed order), plus recording"""
    m = CUR.mon
    res = []
    order = []
    index = {id(f): k for k, f in enumerate(executors)}
    for f in cf.as_completed(executors):
        res.append(f.result())
        order.append(index[id(f)])
    if m is not None:
        with m.lock:
            m.pool_ops.append({"submitted": len(executors), "gathered": len(res), "perm": tuple(order),
                               "phase": m.phase})
    return res


_orig_get_pool_results = None
_orig_get_pool_executor = None


def _get_pool_executor_observing(*args, **kwargs):
    """the repository's own executor, with submit() wrapped so that the COMPLETION order of the futures is recorded
    independently of the order in which the library later gathers the results"""
    ex = _orig_get_pool_executor(*args, **kwargs)      # signature-agnostic: the repository may add parameters
    m = CUR.mon
    if m is None:
        return ex
    op = {"submitted": 0, "completed": [], "phase": m.phase}
    orig_submit = ex.submit

    def submit(fn, *a, **k):
        f = orig_submit(fn, *a, **k)
        idx = op["submitted"]
        op["submitted"] += 1
        f.add_done_callback(lambda _f, i=idx: op["completed"].append(i))
        return f
    try:
        ex.submit = submit
        with m.lock:
            m.pool_execs.append(op)
    except Exception:
        pass
    return ex


def _get_pool_results_observing(executors, *args, **kwargs):
    """calls the repository's own get_pool_results and observes what it returned (used by default: the real
    function stays in the path, so a defect in it is visible)"""
    m = CUR.mon
    res = _orig_get_pool_results(executors, *args, **kwargs)
    if m is not None:
        try:
            by_id = {}
            for k, f in enumerate(executors):
                if f.done() and not f.cancelled() and f.exception() is None:
                    by_id.setdefault(id(f.result()), []).append(k)
            order = []
            for r in res:
                ks = by_id.get(id(r))
                order.append(ks.pop(0) if ks else -1)
            with m.lock:
                m.pool_ops.append({"submitted": len(executors), "gathered": len(res), "perm": tuple(order),
                                   "phase": m.phase})
        except Exception as e:  # never disturb the run
            with m.lock:
                m.pool_ops.append({"submitted": len(executors), "gathered": len(res), "perm": None,
                                   "phase": m.phase, "err": repr(e)})
    return res


def _wrap_greedy_population(orig):
    def _greedy_select_population(self, *args, **kwargs):
        m = CUR.mon
        if m is None:
            return orig(self, *args, **kwargs)
        try:
            new_population = args[0] if args else kwargs.get("new_population")
            old = [(copy.deepcopy(a.position), a.cost) for a in self._population]
            new = [(copy.deepcopy(a.position), a.cost) for a in new_population]
        except Exception:
            old = new = None
        r = orig(self, *args, **kwargs)
        if old is not None:
            m.greedy.append((old, new, [(copy.deepcopy(a.position), a.cost) for a in self._population], self._mode.value))
        return r
    _greedy_select_population.__wrapped__ = orig
    return _greedy_select_population


def _wrap_generate_agents(orig):
    def _generate_agents(self, *args, **kwargs):
        m = CUR.mon
        r = orig(self, *args, **kwargs)
        n_agents = args[0] if args else kwargs.get("n_agents")
        if m is not None and isinstance(n_agents, int):
            m.generate.append((n_agents, len(r), m.phase))
            if m.phase == "init":
                m.generated_init.append((n_agents, len(r), m.phase, [copy.deepcopy(a.position) for a in r]))
        return r
    _generate_agents.__wrapped__ = orig
    return _generate_agents


# ---- H-attr: stale-state read monitor (C08 / C18) ---------------------------------------------------------------
def _ga(self, name):
    v = object.__getattribute__(self, name)
    m = CUR.mon
    if m is not None and m.attr and name in m.armed and name not in m.written:
        m.stale_reads[name] += 1
    return v


def _sa(self, name, val):
    m = CUR.mon
    if m is not None and m.attr:
        m.written.add(name)
    object.__setattr__(self, name, val)


def attr_hooks(on: bool):
    if on:
        OptimizationAbstract.__getattribute__ = _ga
        OptimizationAbstract.__setattr__ = _sa
    else:
        for n in ("__getattribute__", "__setattr__"):
            if n in OptimizationAbstract.__dict__:
                delattr(OptimizationAbstract, n)


def install():
    global _INSTALLED, _orig_get_pool_results
    if _INSTALLED:
        return
    _INSTALLED = True
    classes = env.optimizer_classes()
    for name, cls in classes.items():
        if "optimization_step" in cls.__dict__:
            setattr(cls, "optimization_step", _wrap_step(cls.__dict__["optimization_step"]))
        else:   # inherited from another exported optimizer: wrap what the MRO finds, once, on this class
            setattr(cls, "optimization_step", _wrap_step(getattr(cls, "optimization_step")))
    seen = set()
    for cls in [OptimizationAbstract] + list(classes.values()):
        if "_init_population" in cls.__dict__ and cls not in seen:
            seen.add(cls)
            setattr(cls, "_init_population", _wrap_init_population(cls.__dict__["_init_population"]))
    _orig_get_pool_results = A.get_pool_results
    A.get_pool_results = _get_pool_results_observing
    global _orig_get_pool_executor
    _orig_get_pool_executor = A.get_pool_executor
    A.get_pool_executor = _get_pool_executor_observing
    OptimizationAbstract._greedy_select_population = _wrap_greedy_population(
        OptimizationAbstract.__dict__["_greedy_select_population"])
    OptimizationAbstract._generate_agents = _wrap_generate_agents(OptimizationAbstract.__dict__["_generate_agents"])


def wrap_scripted(cls):
    """instrument a harness-defined optimizer class (scripted optimizers) the same way"""
    if "optimization_step" in cls.__dict__ and not hasattr(cls.__dict__["optimization_step"], "__wrapped__"):
        setattr(cls, "optimization_step", _wrap_step(cls.__dict__["optimization_step"]))
    return cls


# ---- H-cov: which executable lines of the repository the workload actually drove (sys.monitoring, LINE + DISABLE) ----
_COV = {"on": False, "new": set()}
_PVDIR = os.path.join(env.REPO, "pyvolutionary") + os.sep


def cov_start():
    import sys
    if _COV["on"] or not hasattr(sys, "monitoring"):
        return
    mon = sys.monitoring
    tool = mon.COVERAGE_ID
    try:
        mon.use_tool_id(tool, "pvmon-cov")
    except ValueError:
        return
    new = _COV["new"]

    def on_line(code, line):
        fn = code.co_filename
        if fn.startswith(_PVDIR):
            new.add((fn[len(_PVDIR):], line))
        return mon.DISABLE

    mon.register_callback(tool, mon.events.LINE, on_line)
    mon.set_events(tool, mon.events.LINE)
    _COV["on"] = True


def cov_take():
    out = sorted(_COV["new"])
    _COV["new"].clear()
    return [f"{f}:{l}" for f, l in out]


def executable_lines():
    """{relative file: set(line numbers)} of every module under pyvolutionary/, from the compiled code objects"""
    import os as _os
    out = {}
    for root, _d, files in _os.walk(_PVDIR):
        for f in files:
            if not f.endswith(".py"):
                continue
            path = _os.path.join(root, f)
            try:
                code = compile(open(path).read(), path, "exec")
            except Exception:
                continue
            lines = set()
            stack = [code]
            while stack:
                c = stack.pop()
                if c.co_flags & 0x1:       # function bodies only: module / class-body lines run at import, before the monitor starts
                    for _s, _e, ln in c.co_lines():
                        if ln is not None and ln != c.co_firstlineno:
                            lines.add(ln)
                stack.extend(k for k in c.co_consts if hasattr(k, "co_lines"))
            out[path[len(_PVDIR):]] = lines
    return out


# ---- H-yield: line-level yield injection in pool threads (thread mode), seeded ------------------------------------------
_YIELD = {"on": False, "n": 0, "rng": None, "p": 0.0, "codes": []}


def yield_start(seed, p=0.25):
    """LINE events on the code objects that pooled work runs through (_init_agent and overrides, _greedy_select_agent and
    overrides, _fcn, Task.initial_solution / correct_solution / solve / empty_solution): in any thread other than the main
    one, yield the GIL (sleep(0) or sleep(1e-4)) with seeded probability p.  Placed between the library's own statements,
    i.e. exactly where a preemptive thread switch can happen anyway."""
    import random
    import sys
    import threading
    import time
    from pyvolutionary.models import Task
    if _YIELD["on"] or not hasattr(sys, "monitoring"):
        return False
    mon = sys.monitoring
    tool = mon.PROFILER_ID
    try:
        mon.use_tool_id(tool, "pvmon-yield")
    except ValueError:
        return False
    rng = random.Random(f"yield/{seed}")
    main = threading.main_thread()
    st = _YIELD
    st.update(on=True, n=0, rng=rng, p=p)
    lock = threading.Lock()

    def on_line(code, line):
        if threading.current_thread() is main:
            return None
        with lock:
            r = rng.random()
        if r < p:
            st["n"] += 1
            time.sleep(0 if r < p * 0.7 else 1e-4)
        return None

    mon.register_callback(tool, mon.events.LINE, on_line)
    codes = set()
    names = ("_init_agent", "_greedy_select_agent", "_fcn")
    for cls in [OptimizationAbstract] + list(env.optimizer_classes().values()):
        for n in names:
            f = cls.__dict__.get(n)
            f = getattr(f, "__wrapped__", f)
            if f is not None and hasattr(f, "__code__"):
                codes.add(f.__code__)
    _models = sys.modules["pyvolutionary.models"]     # (the attribute pyvolutionary.models is shadowed by a star-import)
    for klass in [Task] + [c for c in vars(_models).values() if isinstance(c, type) and issubclass(c, _models.Variable)]:
        for f in vars(klass).values():          # every method of Task and of the variable classes (incl. lazily built caches)
            f = getattr(f, "__wrapped__", f)
            if hasattr(f, "__code__") and f.__code__.co_filename.startswith(_PVDIR):
                codes.add(f.__code__)
    for c in codes:
        mon.set_local_events(tool, c, mon.events.LINE)
    st["codes"] = list(codes)
    return True


def yield_stop():
    import sys
    if not _YIELD["on"]:
        return 0
    mon = sys.monitoring
    tool = mon.PROFILER_ID
    for c in _YIELD["codes"]:
        try:
            mon.set_local_events(tool, c, 0)
        except Exception:
            pass
    mon.register_callback(tool, mon.events.LINE, None)
    mon.free_tool_id(tool)
    _YIELD["on"] = False
    return _YIELD["n"]
